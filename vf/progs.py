"""Test-program AST (plain JSON), Hypothesis strategies, exhaustive small-tree enumerator, and the builder
that turns an AST into real openhtf objects with instrumented phase bodies.

AST
  program := {nodes:[node], test_start: null | {'lambda':1} | phase, tdiags:[diag],
              opts:{sof: null|'opt'|'conf', allow_unset: bool, fexc: ['A','B'], callbacks: [0|1,...]}}
  node    := {t:'phase', id, o:{rl,fr,romf,rot,run_if,somf,to}, m:[name], d:[diag], s:[behaviour]}
           | {t:'cp', id, k:'last'|'all'|'subtest'|'diag', cond:[op,[r..]], act:'STOP'|'FAIL_SUBTEST'}
           | {t:'seq', c:[node]} | {t:'branch', id, cond:[op,[r..]], c:[node]} | {t:'subtest', id, c:[node]}
           | {t:'group', id, s:[node], m:[node], td:[node]}
  behaviour := {sets:{name:'p'|'f'}, end: 'NONE'|'CONTINUE'|'FAIL_AND_CONTINUE'|'SKIP'|'REPEAT'|'STOP'|'FAIL_SUBTEST'
                                         |'INVALID'|'RAISE_A'|'RAISE_B'|'RAISE_O'|'BLOCK'}
  diag    := {emit:[[r, is_failure, is_internal]], af: bool} | {raise:1} | {garbage:1}
One behaviour per invocation; the last one repeats.  A phase with o.to == 0 is a *timeout phase*: every
invocation blocks until killed (real-thread mode has no other timing construct).
"""
import functools
import itertools
import logging
import sys
import threading
import time

from hypothesis import strategies as st

ENDS = ['NONE', 'CONTINUE', 'FAIL_AND_CONTINUE', 'SKIP', 'REPEAT', 'STOP', 'FAIL_SUBTEST', 'INVALID', 'INVALID_FALSE',
        'INVALID_ZERO', 'INVALID_EMPTY', 'RAISE_A', 'RAISE_A2', 'RAISE_B', 'RAISE_O', 'RAISE_BADSTR', 'EXIT', 'BLOCK']
INVALID_VALUES = {'INVALID': 42, 'INVALID_FALSE': False, 'INVALID_ZERO': 0, 'INVALID_EMPTY': ''}
CONDS = ['ALL', 'ANY', 'NOT_ANY', 'NOT_ALL']
NRES = 4

DEFAULT_OPTS = {'rl': None, 'fr': False, 'romf': False, 'rot': False, 'run_if': None, 'somf': False, 'to': None}


def phase(pid, end='NONE', sets=None, m=(), d=(), script=None, **o):
  opts = dict(DEFAULT_OPTS)
  opts.update(o)
  return {'t': 'phase', 'id': pid, 'o': opts, 'm': list(m), 'd': list(d),
          's': script if script is not None else [{'sets': dict(sets or {}), 'end': end}]}


def program(nodes, test_start=None, tdiags=(), **opts):
  o = {'sof': None, 'allow_unset': False, 'fexc': [], 'callbacks': []}
  o.update(opts)
  return {'nodes': list(nodes), 'test_start': test_start, 'tdiags': list(tdiags), 'opts': o}


# ------------------------------------------------------------------ traversal helpers
def children_lists(node):
  t = node['t']
  if t in ('seq', 'branch', 'subtest'):
    return [('c', node['c'])]
  if t == 'group':
    return [('s', node['s']), ('m', node['m']), ('td', node['td'])]
  return []


def walk(nodes, ctx=None):
  """Yields (node, ctx) where ctx = {'in_td': bool, 'subtest': id|None, 'depth': int, 'part': str}."""
  ctx = ctx or {'in_td': False, 'subtest': None, 'depth': 0, 'part': 'top'}
  for n in nodes:
    yield n, ctx
    for part, lst in children_lists(n):
      c2 = dict(ctx, depth=ctx['depth'] + 1, part=part)
      if part == 'td':
        c2['in_td'] = True
      if n['t'] == 'subtest':
        c2['subtest'] = n['id']
      for x in walk(lst, c2):
        yield x


def all_phases(prog):
  out = [n for n, _ in walk(prog['nodes']) if n['t'] == 'phase']
  ts = prog.get('test_start')
  if ts and ts.get('t') == 'phase':
    out.insert(0, ts)
  return out


def features(prog):
  f = set()
  for n, c in walk(prog['nodes']):
    f.add(n['t'])
    if c['in_td']:
      f.add('in_td:' + n['t'])
    if c['subtest'] is not None:
      f.add('in_subtest:' + n['t'])
    if n['t'] == 'phase':
      for k, v in n['o'].items():
        if v not in (None, False):
          f.add('opt:' + k)
      for b in n['s']:
        f.add('end:' + b['end'])
        if {'f', 'x', 'px'} & set(b['sets'].values()):
          f.add('meas_fail')
      if n['m']:
        f.add('meas')
      if n.get('cv'):
        f.add('cond_validator')
      if n['d']:
        f.add('diag')
      if len(n['s']) > 1:
        f.add('multi_inv')
    if n['t'] == 'cp':
      f.add('cp:' + n['k'])
  if prog['test_start']:
    f.add('test_start')
  if prog['tdiags']:
    f.add('tdiag')
  for k, v in prog['opts'].items():
    if v:
      f.add('topt:' + k)
  return f


# ------------------------------------------------------------------ hypothesis strategies
def _weighted(draw, pairs):
  total = sum(w for _, w in pairs)
  x = draw(st.integers(0, total - 1))
  for v, w in pairs:
    if x < w:
      return v
    x -= w
  return pairs[-1][0]


def _cond(draw):
  op = draw(st.sampled_from(CONDS))
  if draw(st.integers(0, 24)) == 0:
    # a condition that the API accepts but whose evaluation raises (on_all([R0]): a list where varargs are expected)
    op = 'BROKEN_' + op
  rs = draw(st.lists(st.integers(0, NRES - 1), min_size=0 if draw(st.integers(0, 9)) == 0 else 1, max_size=3, unique=True))
  return [op, sorted(rs)]


def _diag(draw, test_level=False):
  kind = _weighted(draw, [('emit', 16), ('raise', 2), ('garbage', 1)])
  if kind == 'raise':
    # one in five: the diagnoser gives up the way a script would - sys.exit(), a BaseException that is not an Exception
    return {'raise': 'exit'} if draw(st.integers(0, 4)) == 0 else {'raise': 1}
  if kind == 'garbage':
    return {'garbage': 1}
  n = _weighted(draw, [(1, 8), (0, 1), (2, 3)])
  as_class = (not test_level) and draw(st.integers(0, 3)) == 0
  emit = []
  for _ in range(n):
    r = draw(st.integers(0, NRES - 1))
    flag = _weighted(draw, [('plain', 5), ('fail', 4), ('internal', 0 if test_level else 2)])
    emit.append([r, flag == 'fail', flag == 'internal'])
  af = draw(st.integers(0, 7)) == 0 and not any(e[2] for e in emit)
  d = {'emit': emit, 'af': af}
  if as_class:
    d['cls'] = True
  return d


def _behaviour(draw, meas, in_subtest, timeout_phase, simple=False):
  if timeout_phase:
    return {'sets': {}, 'end': 'BLOCK'}
  if simple:
    end = _weighted(draw, [('NONE', 10), ('CONTINUE', 3), ('FAIL_AND_CONTINUE', 3), ('STOP', 2), ('RAISE_O', 2), ('SKIP', 2), ('RAISE_A', 1)])
  else:
    end = _weighted(draw, [('NONE', 22), ('CONTINUE', 8), ('FAIL_AND_CONTINUE', 6), ('SKIP', 4), ('REPEAT', 4), ('STOP', 3),
                           ('FAIL_SUBTEST', 8 if in_subtest else 1), ('INVALID', 1), ('INVALID_FALSE', 1), ('INVALID_ZERO', 1),
                           ('INVALID_EMPTY', 1), ('RAISE_A', 2), ('RAISE_A2', 1), ('RAISE_B', 1), ('RAISE_O', 2), ('RAISE_BADSTR', 1), ('EXIT', 1)])
  sets = {}
  for name in meas:
    v = _weighted(draw, [('p', 14), ('f', 4), (None, 2), ('x', 1), ('px', 1)])
    if v:
      sets[name] = v
  return {'sets': sets, 'end': end}


def _phase(draw, ids, in_subtest, strict, simple=False):
  pid = next(ids)
  o = dict(DEFAULT_OPTS)
  timeout_phase = False
  if not simple:
    if draw(st.integers(0, 5)) == 0:
      o['rl'] = draw(st.sampled_from([1, 2, 3, 4] if strict else [0, 1, 2, 3, 4, 5]))
    if draw(st.integers(0, 11)) == 0:
      o['fr'] = True
    if draw(st.integers(0, 9)) == 0:
      o['romf'] = True
    if draw(st.integers(0, 7)) == 0:
      o['run_if'] = _weighted(draw, [('F', 6), ('T', 3), ('X', 1)])
    if draw(st.integers(0, 11)) == 0:
      o['somf'] = True
    if draw(st.integers(0, 14)) == 0:
      o['to'] = 0
      timeout_phase = True
      if draw(st.booleans()):
        o['rot'] = True
        if o['rl'] is None or o['rl'] > 2 or o['rl'] == 0:
          o['rl'] = 2
      if o['fr'] and (o['rl'] is None or o['rl'] > 2 or o['rl'] == 0):
        o['rl'] = 2
  nm = 0 if simple else _weighted(draw, [(0, 5), (1, 4), (2, 1)])
  meas = ['m%d_%d' % (pid, i) for i in range(nm)]
  cv = {}
  for name in meas:
    if draw(st.integers(0, 4)) == 0:
      cv[name] = draw(st.integers(0, NRES - 1))
  nd = 0 if simple else _weighted(draw, [(0, 6), (1, 3), (2, 1)])
  diags = [_diag(draw) for _ in range(nd)]
  ns = 1 if (simple or timeout_phase) else _weighted(draw, [(1, 6), (2, 3), (3, 1)])
  script = [_behaviour(draw, meas, in_subtest, timeout_phase, simple) for _ in range(ns)]
  node = {'t': 'phase', 'id': pid, 'o': o, 'm': meas, 'd': diags, 's': script}
  if cv:
    node['cv'] = cv
  # some measurements are dimensioned (set at one coordinate; validated at phase end); not the ones with a conditional
  # validator or a value kind that relies on the validator raising at the assignment
  dims = [name for name in meas if name not in cv and not any(b['sets'].get(name) in ('x', 'px') for b in script) and draw(st.integers(0, 4)) == 0]
  if dims:
    node['dims'] = dims
  if not simple and draw(st.integers(0, 11)) == 0:
    node['callable'] = draw(st.sampled_from(['partial', 'instance']))
  elif not simple and not timeout_phase and draw(st.integers(0, 29)) == 0:
    node['monitored'] = 'inner'      # the body wrapped by monitors.monitors(), options etc. declared outside (documented stacking)
  return node


def _cp(draw, ids, in_subtest):
  k = _weighted(draw, [('last', 3), ('all', 3), ('subtest', 3), ('diag', 3)])
  act = _weighted(draw, [('STOP', 3), ('FAIL_SUBTEST', 4 if in_subtest else 1)])
  n = {'t': 'cp', 'id': next(ids), 'k': k, 'act': act}
  if k == 'diag':
    n['cond'] = _cond(draw)
  return n


def _nodes(draw, ids, budget, depth, in_subtest, in_td, strict, maxdepth, min_size=0, cfg=None):
  cfg = cfg or {}
  out = []
  n = draw(st.integers(min_size, 4 if depth else 6))
  for _ in range(n):
    if budget[0] <= 0:
      break
    budget[0] -= 1
    kinds = [('phase', 11), ('cp', 2)]
    if cfg.get('leaf_only'):
      kinds = [('phase', 1)]
    elif depth < maxdepth:
      kinds += [('seq', 1), ('branch', 2)]
      if not (strict and in_td):
        kinds += [('subtest', 2), ('group', cfg.get('group_weight', 3))]
    k = _weighted(draw, kinds)
    if k == 'phase':
      out.append(_phase(draw, ids, in_subtest, strict))
    elif k == 'cp':
      out.append(_cp(draw, ids, in_subtest))
    elif k == 'seq':
      out.append({'t': 'seq', 'c': _nodes(draw, ids, budget, depth + 1, in_subtest, in_td, strict, maxdepth, cfg=cfg)})
    elif k == 'branch':
      out.append({'t': 'branch', 'id': next(ids), 'cond': _cond(draw),
                  'c': _nodes(draw, ids, budget, depth + 1, in_subtest, in_td, strict, maxdepth, cfg=cfg)})
    elif k == 'subtest':
      out.append({'t': 'subtest', 'id': next(ids),
                  'c': _nodes(draw, ids, budget, depth + 1, True, in_td, strict, maxdepth, min_size=1, cfg=cfg)})
    else:
      g = {'t': 'group', 'id': next(ids)}
      scfg = dict(cfg, leaf_only=True) if cfg.get('setup_leaf_only') else cfg
      g['s'] = _nodes(draw, ids, budget, depth + 1, in_subtest, in_td, strict, maxdepth, cfg=scfg) if draw(st.booleans()) else []
      g['m'] = _nodes(draw, ids, budget, depth + 1, in_subtest, in_td, strict, maxdepth, cfg=cfg)
      g['td'] = _nodes(draw, ids, budget, depth + 1, in_subtest, True, strict, maxdepth, min_size=1, cfg=cfg) if draw(st.integers(0, 4)) else []
      direct = [part for part in ('s', 'm', 'td') if len(g[part]) == 1 and g[part][0]['t'] in ('branch', 'subtest', 'seq') and draw(st.integers(0, 2)) == 0]
      if direct:
        g['direct'] = direct     # main=BranchSequence(...) rather than main=[BranchSequence(...)]: the node itself as the initializer
      elif (g['s'] or g['td']) and draw(st.integers(0, 5)) == 0:
        # built through PhaseGroup.with_context(setup, teardown): 'second' = the creator has been used before, with the
        # setup / teardown nodes handed over as one-shot iterables (generators)
        g['via'] = draw(st.sampled_from(['context', 'context-second']))
      out.append(g)
  return out


@st.composite
def programs(draw, strict=False, max_nodes=14, maxdepth=3, with_test_start=True, with_callbacks=False, cfg=None):
  ids = itertools.count(1)
  budget = [draw(st.integers(1, max_nodes))]
  nodes = _nodes(draw, ids, budget, 0, False, False, strict, maxdepth, min_size=0 if draw(st.integers(0, 19)) == 0 else 1, cfg=cfg)
  ts = None
  if with_test_start and draw(st.integers(0, 5)) == 0:
    ts = {'lambda': 1} if draw(st.integers(0, 2)) == 0 else _phase(draw, ids, False, strict, simple=True)
  tdiags = [_diag(draw, test_level=True) for _ in range(_weighted(draw, [(0, 7), (1, 2), (2, 1)]))]
  opts = {
      'sof': _weighted(draw, [(None, 8), ('opt', 1), ('conf', 1)]),
      'allow_unset': draw(st.integers(0, 5)) == 0,
      'fexc': _weighted(draw, [([], 6), (['A'], 2), (['B'], 1), (['A', 'B'], 1)]),
      'callbacks': draw(st.lists(st.integers(0, 1), max_size=3)) if with_callbacks else [],
  }
  if draw(st.integers(0, 7)) == 0:
    opts['capsrc'] = True       # CONF.capture_source: the record carries the source of the phases
  return {'nodes': nodes, 'test_start': ts, 'tdiags': tdiags, 'opts': opts}


# ------------------------------------------------------------------ exhaustive small trees
LEAF_ALPHABET = [
    ('ok', lambda pid: phase(pid)),
    ('fail', lambda pid: phase(pid, 'FAIL_AND_CONTINUE')),
    ('failsub', lambda pid: phase(pid, 'FAIL_SUBTEST')),
    ('stop', lambda pid: phase(pid, 'STOP')),
    ('raise', lambda pid: phase(pid, 'RAISE_O')),
    ('skip', lambda pid: phase(pid, 'SKIP')),
    ('emit0', lambda pid: phase(pid, d=[{'emit': [[0, False, False]], 'af': False}])),
    ('cp_last_fs', lambda pid: {'t': 'cp', 'id': pid, 'k': 'last', 'act': 'FAIL_SUBTEST'}),
    ('cp_all_stop', lambda pid: {'t': 'cp', 'id': pid, 'k': 'all', 'act': 'STOP'}),
    ('returns_false', lambda pid: phase(pid, 'INVALID_FALSE')),
    # a failed measurement on a stop_on_measurement_fail phase whose diagnoser raises: STOP (FAIL) was decided first
    ('somf_fail_diag_raises', lambda pid: phase(pid, m=['m%d_0' % pid], sets={'m%d_0' % pid: 'f'}, d=[{'raise': 1}], somf=True)),
]


def shapes(k, allow_group_in_td=False, maxdepth=2):
  """All structure shapes with exactly k leaf slots: nested lists of 'L' / ('seq'|'branch0'|'nbranch0'|'subtest', [..]) / ('group', s, m, td)."""

  def seqs(n, in_td, depth):  # all sequences (lists of nodes) with n leaves in total
    if n == 0:
      yield []
      return
    for first in range(1, n + 1):
      for head in node(first, in_td, depth):
        for tail in seqs(n - first, in_td, depth):
          yield [head] + tail

  def node(n, in_td, depth):
    if n == 1:
      yield 'L'
    if depth >= maxdepth:
      return
    for body in seqs(n, in_td, depth + 1):
      if not body:
        continue
      yield ('branch_any0', body)
      yield ('branch_notany0', body)
      if not in_td:
        yield ('subtest', body)
    if not in_td or allow_group_in_td:
      for a in range(0, n + 1):
        for b in range(0, n - a + 1):
          c = n - a - b
          if a + b + c != n or (b == 0 and c == 0):
            continue
          for s in seqs(a, in_td, depth + 1):
            for m in seqs(b, in_td, depth + 1):
              for td in seqs(c, True, depth + 1):
                yield ('group', s, m, td)

  return seqs(k, False, 0)


def instantiate(shape, leaves):
  ids = itertools.count(1)
  it = iter(leaves)

  def conv(x):
    if x == 'L':
      return LEAF_ALPHABET[next(it)][1](next(ids))
    if x[0] == 'group':
      return {'t': 'group', 'id': next(ids), 's': [conv(y) for y in x[1]], 'm': [conv(y) for y in x[2]], 'td': [conv(y) for y in x[3]]}
    if x[0] == 'subtest':
      return {'t': 'subtest', 'id': next(ids), 'c': [conv(y) for y in x[1]]}
    if x[0] == 'branch_any0':
      return {'t': 'branch', 'id': next(ids), 'cond': ['ANY', [0]], 'c': [conv(y) for y in x[1]]}
    if x[0] == 'branch_notany0':
      return {'t': 'branch', 'id': next(ids), 'cond': ['NOT_ANY', [0]], 'c': [conv(y) for y in x[1]]}
    raise ValueError(x)

  return program([conv(x) for x in shape])


def enumerate_programs(k, maxdepth=2, alphabet=None):
  alphabet = list(range(len(LEAF_ALPHABET))) if alphabet is None else alphabet
  for shape in shapes(k, maxdepth=maxdepth):
    for leaves in itertools.product(alphabet, repeat=k):
      yield instantiate(shape, leaves)


# ------------------------------------------------------------------ small trees placed into contexts
def _has(nodes, types):
  return any(n['t'] in types for n, _ in walk(nodes))


CONTEXTS = [
    ('top', False, lambda h: h),
    ('subtest-after-ok', False, lambda h: [{'t': 'subtest', 'id': 900, 'c': [phase(901)] + h + [phase(902)]}, phase(903)]),
    ('subtest-after-failsub', False, lambda h: [{'t': 'subtest', 'id': 900, 'c': [phase(901, 'FAIL_SUBTEST')] + h + [phase(902)]}, phase(903)]),
    ('teardown-of-failed-subtest-group', True,
     lambda h: [{'t': 'subtest', 'id': 900, 'c': [{'t': 'group', 'id': 904, 's': [], 'm': [phase(901, 'FAIL_SUBTEST'), phase(905)], 'td': h + [phase(902)]},
                                                 phase(906)]}, phase(903)]),
    ('teardown-after-raise', True, lambda h: [{'t': 'group', 'id': 904, 's': [], 'm': [phase(901, 'RAISE_O')], 'td': h + [phase(902)]}, phase(903)]),
    ('teardown-after-ok-with-diag', True,
     lambda h: [{'t': 'group', 'id': 904, 's': [], 'm': [phase(901, d=[{'emit': [[0, False, False]], 'af': False}])], 'td': h + [phase(902)]}, phase(903)]),
    ('group-main-after-setup', False, lambda h: [{'t': 'group', 'id': 904, 's': [phase(901)], 'm': h + [phase(905)], 'td': [phase(902)]}, phase(903)]),
    ('group-setup', False, lambda h: [{'t': 'group', 'id': 904, 's': h, 'm': [phase(905)], 'td': [phase(902)]}, phase(903)]),
    ('branch-taken', False, lambda h: [phase(901, d=[{'emit': [[1, False, False]], 'af': False}]),
                                       {'t': 'branch', 'id': 900, 'cond': ['ALL', [1]], 'c': h + [phase(902)]}, phase(903)]),
    ('after-fail-with-sof', False, lambda h: [phase(901, 'FAIL_AND_CONTINUE')] + h),
    # checkpoints looking back over what the hole recorded (own subtest only / everything / last record)
    ('subtest-checkpoint-after-fail', False,
     lambda h: [{'t': 'subtest', 'id': 900, 'c': [phase(901, 'FAIL_AND_CONTINUE')] + h + [{'t': 'cp', 'id': 907, 'k': 'subtest', 'act': 'FAIL_SUBTEST'},
                                                                                      phase(902)]}, phase(903)]),
    ('subtest-checkpoint-after-ok', False,
     lambda h: [phase(908, 'FAIL_AND_CONTINUE'),
                {'t': 'subtest', 'id': 900, 'c': [phase(901)] + h + [{'t': 'cp', 'id': 907, 'k': 'subtest', 'act': 'STOP'}, phase(902)]}, phase(903)]),
    ('all-checkpoint-after', False, lambda h: [phase(901)] + h + [{'t': 'cp', 'id': 907, 'k': 'all', 'act': 'STOP'}, phase(903)]),
    ('last-checkpoint-after', False, lambda h: [phase(901, 'FAIL_AND_CONTINUE')] + h + [{'t': 'cp', 'id': 907, 'k': 'last', 'act': 'STOP'}, phase(903)]),
]


def enumerate_in_contexts(k, maxdepth=1, alphabet=None):
  """Every small tree (k leaves) placed into every context. Trees with a group/subtest are not put into teardowns."""
  for base in enumerate_programs(k, maxdepth, alphabet):
    hole = base['nodes']
    has_coll = _has(hole, ('group', 'subtest'))
    for name, in_td, wrap in CONTEXTS:
      if in_td and has_coll:
        continue
      import copy as _copy  # pylint: disable=g-import-not-at-top
      prog = program(wrap(_copy.deepcopy(hole)))
      if name == 'after-fail-with-sof':
        prog['opts']['sof'] = 'opt'
      yield name, prog


# ------------------------------------------------------------------ builder
class ExcA(Exception):
  pass


class ExcA2(ExcA):
  """A subclass of a listed failure exception is a failure exception too (isinstance, like an except clause)."""


class ExcBadStr(Exception):
  """An exception that cannot be rendered: str() of it raises (only generated where a check asks for it)."""

  def __str__(self):
    raise RuntimeError('str() of this exception fails')


class ExcB(Exception):
  pass


class ExcO(Exception):
  pass


class DiagBoom(Exception):
  pass


class RunIfBoom(Exception):
  pass


class CallbackBoom(Exception):
  pass


_ENUM = {}


def result_enum():
  if 'R' not in _ENUM:
    import openhtf as htf  # pylint: disable=g-import-not-at-top

    class R(htf.DiagResultEnum):
      R0 = 'r0'
      R1 = 'r1'
      R2 = 'r2'
      R3 = 'r3'

    _ENUM['R'] = R
  return _ENUM['R']


class Ctx(object):
  """Per-case observation context shared by all generated bodies."""

  def __init__(self):
    self.events = []  # ordered: ('body', pid, inv) ('run_if', pid) ('diag', pid, k) ('tdiag', k) ('cb', i) ...
    self.inv = {}
    self.cancel = threading.Event()
    self.lock = threading.Lock()
    self.hooks = {}  # optional per-pid callables run inside the body (used by property modules)
    self.serial = 0
    self.plug_classes = []
    self.raw = {}
    self.flags = set()

  def next_inv(self, pid):
    with self.lock:
      n = self.inv.get(pid, 0)
      self.inv[pid] = n + 1
    return n

  def log(self, *ev):
    self.events.append(ev)

  def next_serial(self):
    with self.lock:
      self.serial += 1
      return self.serial

  def calls(self):
    return [(e[1], e[2]) for e in self.events if e[0] == 'body']


def _mk_body(node, ctx, htf):
  pid = node['id']
  script = node['s']

  def body(test, **plugs):
    inv = ctx.next_inv(pid)
    ctx.log('body', pid, inv)
    if plugs:
      ctx.log('plugs', pid, inv, sorted((a, getattr(type(pl), 'vf_index', -1), getattr(pl, 'serial', None)) for a, pl in plugs.items()))
    hook = ctx.hooks.get(pid)
    if hook is not None:
      hook(test, inv, plugs)
    if node.get('monitored') == 'inner':
      # stay in the body until the monitor has stored a sample (its second poll starts after the first one was stored);
      # a body shorter than that leaves the monitor's measurement unset, which is a failure of its own
      base, t_end = MONITOR_PROBE_CALLS[0], time.time() + 5
      while MONITOR_PROBE_CALLS[0] < base + 2 and time.time() < t_end:
        time.sleep(0.002)
    b = script[min(inv, len(script) - 1)]
    for name, v in b['sets'].items():
      if name in (node.get('dims') or ()):
        test.measurements[name][inv] = 5 if v == 'p' else 50
        continue
      if v in ('x', 'px'):
        if v == 'px':
          test.measurements[name] = 5
        try:      # a defensive read loop: the instrument answered 'OVERLOAD', the validator raises on it
          test.measurements[name] = 'OVERLOAD'
        except Exception:  # pylint: disable=broad-except
          pass
        continue
      test.measurements[name] = 5 if v == 'p' else 50
    end = b['end']
    if end == 'NONE':
      return None
    if end == 'BLOCK':
      while not ctx.cancel.is_set():
        time.sleep(0.0005)
      return None
    if end in INVALID_VALUES:
      return INVALID_VALUES[end]
    if end == 'RAISE_A':
      raise ExcA('boom A p%d' % pid)
    if end == 'RAISE_A2':
      raise ExcA2('boom A2 p%d' % pid)
    if end == 'RAISE_BADSTR':
      raise ExcBadStr()
    if end == 'RAISE_B':
      raise ExcB('boom B p%d' % pid)
    if end == 'RAISE_O':
      raise ExcO('boom O p%d' % pid)
    if end == 'EXIT':
      sys.exit('p%d: giving up' % pid)       # SystemExit: a BaseException that is not an Exception
    return getattr(htf.PhaseResult, end)

  body.__name__ = 'p%d' % pid
  kind = node.get('callable')
  if kind == 'partial':
    # the phase is handed over as functools.partial(function, ...): a callable without __name__
    def body_with_extra(test, vf_extra=None, **plugs):
      return body(test, **plugs)
    body_with_extra.__name__ = 'p%d' % pid
    return functools.partial(body_with_extra, vf_extra=1)
  if kind == 'instance':
    # ... or as an instance of a class with __call__ (no __name__ on the instance either)
    return type('p%d' % pid, (object,), {'__call__': lambda self, test, **plugs: body(test, **plugs)})()
  body.__qualname__ = 'p%d' % pid
  return body


def _mk_diag(d, ctx, htf, tag, test_level):
  R = result_enum()
  members = [R.R0, R.R1, R.R2, R.R3]

  def run(*args):
    ctx.log('tdiag' if test_level else 'diag', *tag)
    if d.get('raise') == 'exit':
      ctx.log('user-code-exit', 'tdiag' if test_level else 'diag', *tag)
      sys.exit('diagnoser %r: giving up' % (tag,))
    if d.get('raise'):
      raise DiagBoom('diag %r' % (tag,))
    if d.get('garbage'):
      return 42
    return [htf.Diagnosis(members[r], 'd', is_failure=bool(f), is_internal=bool(i)) for r, f, i in d['emit']]

  run.__name__ = ('td' if test_level else 'd') + '_'.join(str(x) for x in tag)
  if d.get('cls') and not test_level:
    # the subclass style (test/core/diagnoses_test.py: the class passes a fixed name to the base): two instances of one
    # class differ only in attributes of their own, the base's fields (result type, name, always_fail) are the same
    from openhtf.core import diagnoses_lib as _dl  # pylint: disable=g-import-not-at-top

    class LimitDiagnoser(_dl.BasePhaseDiagnoser):
      def __init__(self, fn, always_fail):
        super(LimitDiagnoser, self).__init__(R, name='limit_diagnoser', always_fail=always_fail)
        self.fn = fn

      def run(self, phase_record):
        return self.fn(phase_record)

    return _SHARED_DIAG_CLASS.setdefault('cls', LimitDiagnoser)(run, bool(d.get('af')))
  cls = htf.TestDiagnoser if test_level else htf.PhaseDiagnoser
  return cls(R, name=run.__name__, always_fail=bool(d.get('af')))(run)


_SHARED_DIAG_CLASS = {}


def _mk_cond(cond, htf):
  R = result_enum()
  members = [R.R0, R.R1, R.R2, R.R3]
  op, rs = cond
  broken = op.startswith('BROKEN_')
  op = op[7:] if broken else op
  f = {'ALL': htf.DiagnosisCondition.on_all, 'ANY': htf.DiagnosisCondition.on_any,
       'NOT_ANY': htf.DiagnosisCondition.on_not_any, 'NOT_ALL': htf.DiagnosisCondition.on_not_all}[op]
  if broken:
    return f([members[r] for r in rs] or [members[0]])   # unhashable element: the store lookup raises TypeError
  return f(*[members[r] for r in rs])


def build_phase(node, ctx, htf, plug_map=None):
  pid = node['id']
  o = node['o']
  p = htf.PhaseDescriptor.wrap_or_copy(_mk_body(node, ctx, htf))

  def apply_options(p):
    kw = {}
    if o.get('rl') is not None:
      kw['repeat_limit'] = o['rl']
    if o.get('fr'):
      kw['force_repeat'] = True
    if o.get('romf'):
      kw['repeat_on_measurement_fail'] = True
    if o.get('rot'):
      kw['repeat_on_timeout'] = True
    if o.get('somf'):
      kw['stop_on_measurement_fail'] = True
    if o.get('to') is not None:
      kw['timeout_s'] = o['to']
    ri = o.get('run_if')
    if ri:
      def run_if(ri=ri, pid=pid):
        ctx.log('run_if', pid)
        if ri == 'X':
          raise RunIfBoom('run_if p%d' % pid)
        return ri == 'T'
      kw['run_if'] = run_if
    if kw:
      p = htf.PhaseOptions(**kw)(p)
    return p

  def apply_measurements(p):
    if node['m']:
      from openhtf.util import validators as _validators  # pylint: disable=g-import-not-at-top
      _members = [result_enum().R0, result_enum().R1, result_enum().R2, result_enum().R3]
      ms = []
      for name in node['m']:
        if name in (node.get('dims') or ()):
          ms.append(htf.Measurement(name).with_dimensions('x').with_validator(_dim_rows_in_range))
          continue
        mm = htf.Measurement(name).in_range(0, 10)
        cv = (node.get('cv') or {}).get(name)
        if cv is not None:   # conditional validator: the 'pass' value 5 fails it when diagnosis result R<cv> exists at phase start
          mm = mm.validate_on({_members[cv]: _validators.in_range(0, 3)})
        ms.append(mm)
      p = htf.measures(*ms)(p)
    return p

  def apply_diagnosers(p):
    if node['d']:
      p = htf.diagnose(*[_mk_diag(d, ctx, htf, (pid, k), False) for k, d in enumerate(node['d'])])(p)
    return p

  def apply_plugs(p):
    for spec in (node.get('plugs') or []):
      argname, idx = spec[0], spec[1]
      upd = spec[2] if len(spec) > 2 else True
      if len(spec) > 3 and spec[3] == 'ph':  # declared as a placeholder, substituted with with_plugs()
        p = htf.plugs.plug(update_kwargs=bool(upd), **{argname: htf.plugs.BasePlug.placeholder})(p)
        p = p.with_plugs(**{argname: plug_map[idx]})
      else:
        p = htf.plugs.plug(update_kwargs=bool(upd), **{argname: plug_map[idx]})(p)
    if node.get('shadow_args'):
      # with_args() under the names of the phase's plug arguments (e.g. applied to a whole sequence in which another phase
      # takes that name as a plain argument): the docstring of PhaseDescriptor.__call__ says plugs override extra_kwargs
      names = [spec[0] for spec in (node.get('plugs') or []) if (spec[2] if len(spec) > 2 else True)]
      if names:
        p = p.with_args(**{a: 'shadowed-by-with_args' for a in names})
    return p

  def apply_monitor(p, level=0):
    # the phase (with the plugs it requests) is wrapped by a monitor, as in openhtf.core.monitors' documented usage
    from openhtf.core import monitors as _monitors  # pylint: disable=g-import-not-at-top
    name = p.name
    p = _monitors.monitors('mon_p%d%s' % (pid, '_%d' % level if level else ''), _monitor_probe,
                           poll_interval_ms=20 if node.get('monitored') == 'inner' else 50)(p)
    return htf.PhaseOptions(name=name)(p)

  if node.get('monitored') == 'inner':
    # the documented stacking (docs/ and examples/all_the_things.py): the monitor directly around the function and its
    # plugs, options / measurements / diagnosers declared outside of it
    p = apply_monitor(apply_plugs(p))
    return apply_diagnosers(apply_measurements(apply_options(p)))
  p = apply_plugs(apply_diagnosers(apply_measurements(apply_options(p))))
  if node.get('monitored'):
    p = apply_monitor(p)
  if node.get('monitored') == 2:
    p = apply_monitor(p, 1)        # two quantities sampled during one phase: @monitors stacked on @monitors
  return p


MONITOR_PROBE_CALLS = [0]


def _dim_rows_in_range(rows):
  return all(0 <= r[-1] <= 10 for r in rows)


def _monitor_probe(test):
  MONITOR_PROBE_CALLS[0] += 1
  return 1


class _CallableTearDown(object):
  """A tearDown that is a callable object rather than a function (still bound to the instance when looked up on one)."""

  def __init__(self, fn):
    self.fn = fn

  def __get__(self, obj, owner):
    return self if obj is None else functools.partial(self.fn, obj)

  def __call__(self, *a):
    return self.fn(*a)


class PlugBoom(Exception):
  pass


_UID = itertools.count(1)


def make_plug_classes(specs, ctx, htf):
  """specs: [{'ctor': 'ok'|'raise', 'td': 'ok'|'raise'|'hang', 'base': None|index}] -> list of fresh BasePlug subclasses."""
  uid = next(_UID)
  classes = []
  for i, sp in enumerate(specs):
    base = classes[sp['base']] if sp.get('base') is not None else htf.plugs.BasePlug

    def __init__(self, i=i, sp=sp):
      ctx.log('plug-ctor-enter', i)
      if sp.get('ctor') == 'raise':
        raise PlugBoom('ctor of plug %d' % i)
      if sp.get('ctor') == 'raise-exit':
        sys.exit('plug %d: instrument not found' % i)     # a constructor that gives up the way a script would
      if sp.get('ctor') == 'raise-once' and ('raised-once', i) not in ctx.flags:
        ctx.flags.add(('raised-once', i))      # a transient fault: the instrument was unreachable this one time
        raise PlugBoom('ctor of plug %d (first time only)' % i)
      self.serial = ctx.next_serial()
      ctx.log('plug-ctor-ok', i, self.serial)
      if sp.get('td_kind') == 'instance':
        # tearDown bound on the instance (e.g. forwarded to a wrapped driver's close()); the class has none of its own
        self.tearDown = functools.partial(type(self).vf_teardown_fn, self)
      if sp.get('ctor') == 'sets-logger':
        # constructed all right, but it assigned self.logger - which the framework rejects after the constructor returned
        self.logger = logging.getLogger('station.instrument%d' % i)

    def tearDown(self, i=i, sp=sp):
      ctx.log('plug-td', i, getattr(self, 'serial', None))
      if sp.get('td') == 'raise':
        raise PlugBoom('tearDown of plug %d' % i)
      if sp.get('td') == 'hang':
        while not ctx.cancel.is_set():
          time.sleep(0.0005)

    td_attr = _CallableTearDown(tearDown) if sp.get('td_kind') == 'callable' else tearDown
    attrs = {'__init__': __init__, 'tearDown': td_attr, 'vf_index': i, 'vf_teardown_fn': staticmethod(tearDown)}
    if sp.get('td_kind') == 'instance' and base is htf.plugs.BasePlug:
      del attrs['tearDown']
    cls = type('Plug%d_%d' % (i, uid), (base,), attrs)
    classes.append(cls)
  ctx.plug_classes = classes
  return classes


def build_node(node, ctx, htf, plug_map=None):
  t = node['t']
  if t == 'phase':
    return build_phase(node, ctx, htf, plug_map)
  if t == 'raw':  # a phase object prepared by the property module (ctx.raw[id])
    return ctx.raw[node['id']]
  if t == 'cp':
    act = getattr(htf.PhaseResult, node['act'])
    name = 'c%d' % node['id']
    if node['k'] == 'diag':
      return htf.DiagnosisCheckpoint(name, _mk_cond(node['cond'], htf), action=act)
    f = {'last': htf.PhaseFailureCheckpoint.last, 'all': htf.PhaseFailureCheckpoint.all_previous,
         'subtest': htf.PhaseFailureCheckpoint.subtest_previous}[node['k']]
    return f(name, action=act)
  kids = lambda lst: [build_node(x, ctx, htf, plug_map) for x in lst]
  if t == 'seq':
    return htf.PhaseSequence(*kids(node['c']))
  if t == 'branch':
    return htf.BranchSequence(_mk_cond(node['cond'], htf), *kids(node['c']), name='b%d' % node['id'])
  if t == 'subtest':
    return htf.Subtest('s%d' % node['id'], *kids(node['c']))
  if t == 'custom':
    from openhtf.core import phase_nodes as _pn  # pylint: disable=g-import-not-at-top

    class StationStep(_pn.PhaseNode):
      """A node type of the user's own (nothing in the executor knows how to run it)."""

      @property
      def name(self):
        return 'custom%d' % node['id']

      def _asdict(self):
        return {'name': self.name}

      def copy(self):
        return self

      def with_args(self, **kwargs):
        return self

      def with_plugs(self, **subplugs):
        return self

      def load_code_info(self):
        return self

      def apply_to_all_phases(self, func):
        return self

    return StationStep()
  if t == 'group' and node.get('via'):
    creator = htf.PhaseGroup.with_context((x for x in kids(node['s'])), (x for x in kids(node['td'])))
    if node['via'] == 'context-second':
      creator()          # an earlier group from the same creator (never executed)
    import attr as _attr  # pylint: disable=g-import-not-at-top
    return _attr.evolve(creator(*kids(node['m'])), name='g%d' % node['id'])
  if t == 'group':
    def part(key):
      built = kids(node[key])
      if key in (node.get('direct') or ()) and len(built) == 1:
        return built[0]
      return built or None
    return htf.PhaseGroup(setup=part('s'), main=part('m'), teardown=part('td'), name='g%d' % node['id'])
  raise ValueError(t)


def build_test(prog, ctx, htf, plug_map=None, prebuilt_nodes=None):
  """Returns (test, test_start_arg)."""
  if plug_map is None and prog.get('plugs'):
    plug_map = make_plug_classes(prog['plugs'], ctx, htf)
  nodes = prebuilt_nodes if prebuilt_nodes is not None else [build_node(n, ctx, htf, plug_map) for n in prog['nodes']]
  test = htf.Test(*nodes)
  o = prog['opts']
  kw = {}
  if o.get('sof') == 'opt':
    kw['stop_on_first_failure'] = True
  if o.get('fexc'):
    kw['failure_exceptions'] = [{'A': ExcA, 'B': ExcB}[x] for x in o['fexc']]
  if kw:
    test.configure(**kw)
  if prog['tdiags']:
    test.add_test_diagnosers(*[_mk_diag(d, ctx, htf, (k,), True) for k, d in enumerate(prog['tdiags'])])
  ts = prog.get('test_start')
  if ts is None:
    tsarg = None
  elif ts.get('lambda'):
    tsarg = lambda: (ctx.log('test_start_lambda'), 'DUT1')[1]
  else:
    tsarg = build_phase(ts, ctx, htf, plug_map)
  return test, tsarg


def conf_values(prog):
  o = prog['opts']
  v = {'allow_unset_measurements': bool(o.get('allow_unset'))}
  if o.get('sof') == 'conf':
    v['stop_on_first_failure'] = True
  if o.get('capsrc'):
    v['capture_source'] = True
  return v
