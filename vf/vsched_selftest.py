"""Self-test of the deterministic scheduler; run at the start of every V-mode check (failure = harness error, exit 2)."""
import threading as real_threading

from vf import vsched as V


def _spawn(fn, name='w'):
  t = real_threading.Thread(target=fn, name=name)
  t.daemon = True
  t.start()
  return t


def t_lock_handoff():
  s = V.Scheduler()
  out = []

  def main():
    lk = V.VLock()
    lk.acquire()

    def w():
      with lk:
        out.append('w')

    t = _spawn(w)
    out.append('m1')
    s.sleep(1.0)
    out.append('m2')
    lk.release()
    t.join()
    out.append('m3')

  s.run(main)
  assert s.failure is None, s.failure
  assert out == ['m1', 'm2', 'w', 'm3'], out
  assert abs(s.now - 1.0) < 1e-9


def t_event_timeout_and_time():
  s = V.Scheduler()
  res = []

  def main():
    ev = V.VEvent()
    res.append(ev.wait(5.0))
    res.append(s.now)

    def w():
      s.sleep(2.0)
      ev.set()

    t = _spawn(w)
    res.append(ev.wait(100.0))
    res.append(s.now)
    t.join(1.0)

  s.run(main)
  assert s.failure is None, s.failure
  assert res == [False, 5.0, True, 7.0], res


def t_condition():
  s = V.Scheduler()
  res = []

  def main():
    c = V.VCondition()
    items = []

    def consumer():
      with c:
        while not items:
          c.wait()
        res.append(items.pop())

    t = _spawn(consumer)
    s.sleep(0.5)
    with c:
      items.append(42)
      c.notify_all()
    t.join()
    with c:
      res.append(c.wait(0.25))

  s.run(main)
  assert s.failure is None, s.failure
  assert res == [42, False], res


def t_queue_and_join_timeout():
  s = V.Scheduler()
  res = []

  def main():
    q = V.VQueue()
    try:
      q.get(True, 0.5)
    except V.real_queue.Empty:
      res.append('empty@%.1f' % s.now)

    def w():
      s.sleep(10)

    t = _spawn(w)
    t.join(3.0)
    res.append((t.is_alive(), s.now))
    t.join()
    res.append((t.is_alive(), s.now))

  s.run(main)
  assert s.failure is None, s.failure
  assert res == ['empty@0.5', (True, 3.5), (False, 10.5)], res


def t_deadlock_reported():
  s = V.Scheduler()

  def main():
    a, b = V.VLock(), V.VLock()

    def w():
      with b:
        s.sleep(1)
        with a:
          pass

    _spawn(w)
    with a:
      s.sleep(1)
      with b:
        pass

  s.run(main)
  assert s.failure is not None and s.failure[0] == 'deadlock', s.failure


def _lost_wakeup_program(s, hits):
  """A textbook lost wake-up: check-then-wait without holding the condition's lock across the check."""
  def main():
    c = V.VCondition()
    state = {'ready': False}

    def waiter():
      s.yield_point('check')
      if not state['ready']:
        s.yield_point('between-check-and-wait')
        with c:
          c.wait()
      hits.append('woke')

    t = _spawn(waiter)
    s.yield_point('set')
    state['ready'] = True
    with c:
      c.notify_all()
    t.join()

  return main


def t_lost_wakeup_found_at_bound_2():
  # baseline
  s = V.Scheduler()
  s.run(_lost_wakeup_program(s, []))
  n = s.k
  found = 0
  for k1 in range(n + 2):
    for k2 in range(k1 + 1, n + 4):
      s = V.Scheduler(plan={k1: 0, k2: 0})
      s.run(_lost_wakeup_program(s, []))
      if s.failure is not None and s.failure[0] == 'deadlock':
        found += 1
  assert found >= 1, 'lost wake-up not found with two preemptions over %d points' % n


def t_async_exc():
  s = V.Scheduler()
  res = []

  class Boom(Exception):
    pass

  def main():
    def w():
      try:
        while True:
          s.sleep(0.1)
      except Boom:
        res.append('boom@%.1f' % s.now)

    t = _spawn(w)
    s.sleep(1.05)
    assert s.async_exc(t.ident, Boom) == 1
    t.join()

  s.run(main)
  assert s.failure is None, s.failure
  assert res == ['boom@1.1'], res


def t_determinism():
  def prog(s, out):
    def main():
      lk = V.VLock()

      def w(i):
        for j in range(3):
          with lk:
            out.append((i, j))

      ts = [_spawn(lambda i=i: w(i)) for i in range(3)]
      for t in ts:
        t.join()
    return main

  runs = []
  for _ in range(3):
    s = V.Scheduler(random_policy=(7, 0.3))
    out = []
    s.run(prog(s, out))
    assert s.failure is None, s.failure
    runs.append(out)
  assert runs[0] == runs[1] == runs[2], 'same seed, different schedules'
  s = V.Scheduler(random_policy=(8, 0.3))
  out = []
  s.run(prog(s, out))
  assert sorted(out) == sorted(runs[0])


TESTS = [t_lock_handoff, t_event_timeout_and_time, t_condition, t_queue_and_join_timeout, t_deadlock_reported,
         t_lost_wakeup_found_at_bound_2, t_async_exc, t_determinism]


def run_all():
  for t in TESTS:
    t()
  return len(TESTS)


if __name__ == '__main__':
  import time
  t0 = time.time()
  n = run_all()
  print('vsched self-test: %d tests ok in %.2fs' % (n, time.time() - t0))
