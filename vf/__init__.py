"""Verification framework for google/openhtf: property-based testing and fuzzing.

Everything under test is imported from $VERIF_REPO (default /repo) in a fresh
process per check; see DESIGN.md.
"""
