"""Comparison of an observed run (vf.rmode.Obs) with the reference model's Expect."""
import collections


def _match_optional(expected, observed, key_e, key_o, is_optional):
  """Greedy in-order match where some expected entries may be absent. Returns (ok, description, pairs)."""
  i = 0
  pairs = []
  for e in expected:
    if i < len(observed) and key_e(e) == key_o(observed[i]):
      pairs.append((e, observed[i]))
      i += 1
    elif is_optional(e):
      continue
    else:
      got = key_o(observed[i]) if i < len(observed) else None
      return False, 'expected %r, observed %r (position %d)' % (key_e(e), got, i), pairs
  if i < len(observed):
    return False, 'unexpected extra %r (position %d)' % (key_o(observed[i]), i), pairs
  return True, '', pairs


def _cls(item):
  if item is None:
    return 'none'
  if isinstance(item, (tuple, list)):
    return '/'.join(str(x) for x in item[1:3]) if len(item) > 2 else str(item[-1])
  return str(item)


def compare(x, obs, timeout_pids=()):
  """Returns list of (channel, short-class, detail)."""
  out = []
  rec = obs.record
  if rec is None:
    return [('record', 'missing', 'no record was delivered to the output callback (exc=%r)' % (obs.exc,))]
  tp = set(timeout_pids)
  # ---- events (body / run_if / diag / tdiag), timeout-phase bodies compared separately
  exp_ev = [e[:3] if e[0] == 'body' else e for e in x.events if not (e[0] == 'body' and e[3])]
  obs_ev = [e for e in obs.events if e[0] in ('body', 'run_if', 'diag', 'tdiag') and not (e[0] == 'body' and e[1] in tp)]
  if exp_ev != list(obs_ev):
    k = 0
    while k < min(len(exp_ev), len(obs_ev)) and exp_ev[k] == obs_ev[k]:
      k += 1
    e = exp_ev[k] if k < len(exp_ev) else None
    o = obs_ev[k] if k < len(obs_ev) else None
    out.append(('events', '%s-vs-%s' % (e[0] if e else 'end', o[0] if o else 'end'),
                'event %d: expected %r observed %r\n   expected=%r\n   observed=%r' % (k, e, o, exp_ev, obs_ev)))
  exp_tb = collections.Counter((e[1], e[2]) for e in x.events if e[0] == 'body' and e[3])
  obs_tb = collections.Counter((e[1], e[2]) for e in obs.events if e[0] == 'body' and e[1] in tp)
  if obs_tb - exp_tb:
    out.append(('events', 'timeout-body-extra', 'abandoned bodies ran that were never started: %r' % (obs_tb - exp_tb,)))
  # ---- phase records
  ok, why, pairs = _match_optional(
      x.phases, rec['phases'],
      lambda e: (e['name'], e['outcome'], e['result'], e['subtest']),
      # a body that called sys.exit() shows up as a killed thread
      lambda o: (o['name'], o['outcome'], 'EXC:SystemExit' if o['result'] == 'KILLED' else o['result'], o['subtest']),
      lambda e: e['optional'])
  if not ok:
    out.append(('phase-records', 'sequence', why + '\n   expected=%r\n   observed=%r' % (
        [(e['name'], e['outcome'], e['result'], e['subtest'], '?' if e['optional'] else '') for e in x.phases],
        [(o['name'], o['outcome'], o['result'], o['subtest']) for o in rec['phases']])))
  else:
    for e, o in pairs:
      if e['meas'] is not None and e['meas'] != o['meas']:
        out.append(('phase-records', 'measurement-outcomes', '%s: expected %r observed %r' % (e['name'], e['meas'], o['meas'])))
      if e['diag'] != o['diag'] or e['fdiag'] != o['fdiag']:
        out.append(('phase-records', 'diagnosis-results', '%s: expected %r/%r observed %r/%r' % (
            e['name'], e['diag'], e['fdiag'], o['diag'], o['fdiag'])))
  # ---- checkpoints
  ec = [(c['name'], c['result'], c['subtest']) for c in x.checkpoints]
  oc = [(c['name'], c['result'], c['subtest']) for c in rec['checkpoints']]
  if ec != oc:
    out.append(('checkpoints', 'sequence', 'expected %r observed %r' % (ec, oc)))
  # ---- branches / subtests (multisets: appended on completion, relative order not fixed by the docs)
  ob = collections.Counter((b['name'], b['taken']) for b in rec['branches'])
  if +x.branches != ob:
    out.append(('branches', 'multiset', 'expected %r observed %r' % (dict(x.branches), dict(ob))))
  os_ = collections.Counter((s['name'], s['outcome']) for s in rec['subtests'])
  if +x.subtests != os_:
    out.append(('subtests', 'multiset', 'expected %r observed %r' % (dict(x.subtests), dict(os_))))
  # ---- diagnoses
  od = [(d['result'], d['fail']) for d in rec['diagnoses']]
  if list(x.diagnoses) != od:
    out.append(('diagnoses', 'sequence', 'expected %r observed %r' % (x.diagnoses, od)))
  return out
