"""Deterministic cooperative scheduler with virtual time ("V mode").

Real OS threads, but only the thread holding the baton runs; every managed thread parks on a private real
semaphore.  The modules under test get proxy `threading` / `time` / `queue` / `ctypes` objects in their
namespaces whose primitives are implemented by the scheduler; `threading.Thread.start/join/is_alive` are patched
(class level, dispatching on whether the caller is managed).  Time advances only when nothing is runnable
(discrete-event simulation).  A schedule is data: default policy "keep running the current thread; when it blocks
take the lowest-numbered runnable thread" + a plan {yield-point index: choice} of preemptions (+ optional seeded
random policy) + signal injections.  Given program + plan the run is reproducible.

One Scheduler object per case; nothing of a case survives it: at the end every parked thread is released with
SchedulerAbort and joined.
"""
import collections
import queue as real_queue
import random
import sys
import threading as real_threading
import time as real_time
import traceback

_real_start = real_threading.Thread.start
_real_join = real_threading.Thread.join
_real_is_alive = real_threading.Thread.is_alive
_get_ident = real_threading.get_ident

ACTIVE = [None]  # the scheduler of the running case (a reference, not state: cleared when the case ends)
TOOL_ID = 3
_MON = {'registered': False, 'codes': set()}


class SchedulerAbort(BaseException):
  """Raised in managed threads when their case is over (or failed)."""


class Deadlock(Exception):
  pass


class StepLimit(Exception):
  pass


class TState(object):
  __slots__ = ('idx', 'name', 'sem', 'status', 'pending_exc', 'thread', 'wake_reason', 'deadline', 'waiting_on', 'ident',
               'joiners', 'started', 'in_sched', 'steps')

  def __init__(self, idx, name, thread=None):
    self.idx = idx
    self.name = name
    self.sem = real_threading.Semaphore(0)
    self.status = 'runnable'
    self.pending_exc = None
    self.thread = thread
    self.wake_reason = None
    self.deadline = None
    self.waiting_on = None
    self.ident = None
    self.joiners = []
    self.started = False
    self.in_sched = False
    self.steps = 0

  def __repr__(self):
    return 'T%d(%s,%s%s)' % (self.idx, self.name, self.status, ',wait=%s' % (self.waiting_on,) if self.status == 'blocked' else '')


class Scheduler(object):

  def __init__(self, plan=None, random_policy=None, signals=None, max_steps=400000, time_limit=None, trace=False):
    """plan: {yield index: choice int}; random_policy: (seed, probability); signals: {yield index: callable-name}."""
    self.plan = dict(plan or {})
    self.rnd = random.Random(random_policy[0]) if random_policy else None
    self.rnd_p = random_policy[1] if random_policy else 0.0
    self.signals = dict(signals or {})
    self.signal_handler = None
    self.signals_pending = 0
    self.threads = []
    self.by_ident = {}
    self.current = None
    self.now = 0.0
    self.base_time = 1700000000.0
    self.k = 0                     # yield point counter
    self.aborted = False
    self.failure = None            # ('deadlock'|'steplimit'|'watchdog', text)
    self.max_steps = max_steps
    self.time_limit = time_limit
    self.trace_on = trace
    self.trace = []
    self.effective_preemptions = []
    self.events = []               # free-form log for harness code: (virtual time, thread idx, item)
    self.points_by_thread = collections.Counter()
    self.named = {}                # name -> TState of helper threads that plans can wake
    self.tags = []                 # tag of every yield point (kept short) when trace_on

  # ------------------------------------------------------------------ bookkeeping
  def me(self):
    return self.by_ident.get(_get_ident())

  def log(self, *item):
    ts = self.me()
    self.events.append((self.now, ts.idx if ts else -1, item))

  def describe(self):
    return '; '.join(repr(t) for t in self.threads)

  # ------------------------------------------------------------------ switching
  def _check_abort(self):
    if self.aborted:
      raise SchedulerAbort()

  def _runnable(self):
    return [t for t in self.threads if t.status == 'runnable' and t.started]

  def _choose(self, exclude=None):
    """Pick the next thread to run (may advance virtual time). Raises Deadlock."""
    while True:
      rs = [t for t in self._runnable() if t is not exclude]
      if rs:
        if self.rnd is not None:
          return self.rnd.choice(rs)
        return rs[0]
      if exclude is not None and exclude.status == 'runnable':
        return exclude
      waiting = [t for t in self.threads if t.status == 'blocked' and t.deadline is not None]
      if not waiting:
        raise Deadlock('no runnable thread and no pending deadline: ' + self.describe())
      t_min = min(t.deadline for t in waiting)
      if self.time_limit is not None and t_min > self.time_limit:
        raise Deadlock('virtual time limit %.1fs exceeded (next deadline %.3f): %s' % (self.time_limit, t_min, self.describe()))
      self.now = max(self.now, t_min)
      for t in waiting:
        if t.deadline <= self.now:
          self._wake(t, 'timeout')

  def _wake(self, t, reason):
    if t.status == 'blocked':
      t.status = 'runnable'
      t.wake_reason = reason
      t.deadline = None

  def _fail(self, kind, text):
    if self.failure is None:
      self.failure = (kind, text)
    self._abort_all()

  def _abort_all(self):
    self.aborted = True
    me = self.me()
    for t in self.threads:
      if t is not me and t.status != 'done':
        t.sem.release()

  def _switch(self, cur, nxt):
    """cur parks, nxt runs. Returns when cur is scheduled again."""
    if nxt is cur:
      return
    self.current = nxt
    nxt.sem.release()
    cur.sem.acquire()
    self._check_abort()

  def _step(self, ts):
    self.k += 1
    ts.steps += 1
    if self.k > self.max_steps:
      self._fail('steplimit', 'more than %d scheduling points: livelock? %s' % (self.max_steps, self.describe()))
      raise SchedulerAbort()

  def _deliver(self, ts):
    """Deliver a pending asynchronous exception / signal to the current thread (at a yield point)."""
    if ts.idx == 0 and self.signals_pending and self.signal_handler is not None and not ts.in_sched:
      self.signals_pending -= 1
      self.signal_handler()
    if ts.pending_exc is not None:
      e, ts.pending_exc = ts.pending_exc, None
      raise e() if isinstance(e, type) else e

  def yield_point(self, tag=None, ts=None, deliver=True):
    """A scheduling point that does not block.  deliver=False: other threads may run here, but no asynchronous exception
    or signal handler is started in this thread (the interpreter has no eval-breaker check at this place)."""
    ts = ts or self.me()
    if ts is None:
      return
    if ts.status == 'done':   # the OS thread is finishing its bootstrap code: no longer scheduled
      return
    self._check_abort()
    if ts.in_sched:
      return
    ts.in_sched = True
    try:
      k = self.k
      self._step(ts)
      if self.trace_on:
        self.tags.append((k, ts.idx, tag))
      if k in self.signals:
        self.signals_pending += 1
        t0 = self.threads[0]
        if t0.status == 'blocked':
          self._wake(t0, 'signal')
      choice = self.plan.get(k)
      if choice is None and self.rnd is not None and self.rnd.random() < self.rnd_p:
        choice = self.rnd.randrange(1 << 16)
      if isinstance(choice, (list, tuple)) and choice[0] == 'wake':
        # ('wake', name): a parked helper thread (e.g. the aborter) is released and runs right now
        target = self.named.get(choice[1])
        if target is not None and target.status == 'blocked':
          self._wake(target, 'inject')
          self.effective_preemptions.append((k, ts.idx, target.idx, tag))
          self._switch(ts, target)
      elif isinstance(choice, (list, tuple)):
        # ('stall', seconds): the OS deschedules this thread for a while - virtual time may pass between two lines
        ts.in_sched = False
        self.effective_preemptions.append((k, ts.idx, 'stall', tag))
        self.block(ts, self.now + float(choice[1]), ('stalled', choice[1]))
        ts.in_sched = True
      elif choice is not None:
        others = [t for t in self._runnable() if t is not ts]
        if others:
          nxt = others[choice % len(others)]
          self.effective_preemptions.append((k, ts.idx, nxt.idx, tag))
          self._switch(ts, nxt)
    finally:
      ts.in_sched = False
    if deliver:
      self._deliver(ts)

  def block(self, ts, deadline, desc):
    """Blocks the current thread until woken or until the (virtual) deadline. Returns the wake reason."""
    self._check_abort()
    ts.in_sched = True
    try:
      self._step(ts)
      ts.status = 'blocked'
      ts.deadline = deadline
      ts.waiting_on = desc
      ts.wake_reason = None
      try:
        nxt = self._choose(exclude=ts)
      except Deadlock as e:
        self._fail('deadlock', str(e))
        raise SchedulerAbort()
      self._switch(ts, nxt)
      return ts.wake_reason
    finally:
      ts.in_sched = False

  # ------------------------------------------------------------------ threads
  def run(self, fn, watchdog_s=20.0):
    """Runs fn() as managed thread 0. Returns (result, exception). Never leaves threads behind."""
    t0 = TState(0, 'main')
    t0.ident = _get_ident()
    t0.started = True
    self.threads.append(t0)
    self.by_ident[t0.ident] = t0
    self.current = t0
    ACTIVE[0] = self
    install_patches()
    timer = real_threading.Timer(watchdog_s, self._watchdog)
    timer.daemon = True
    _real_start(timer)
    result, exc = None, None
    swapped = module_locks(*_PROXIED)   # locks the modules under test created at import time become virtual for this run
    try:
      swapped.__enter__()
      result = fn()
    except SchedulerAbort:
      exc = None
    except BaseException as e:  # pylint: disable=broad-except
      exc = e
    finally:
      swapped.__exit__(None, None, None)
      timer.cancel()
      self.finish()
    return result, exc

  def _watchdog(self):
    if self.failure is None:
      self.failure = ('watchdog', 'real-time watchdog fired: ' + self.describe() + '\n' + dump_stacks())
    self.aborted = True
    for t in self.threads:
      if t.status != 'done':
        t.sem.release()

  def finish(self):
    self.aborted = True
    me = self.me()
    for t in self.threads:
      if t is not me and t.status != 'done':
        t.sem.release()
    for t in self.threads:
      if t is not me and t.thread is not None:
        _real_join(t.thread, 2.0)
        if _real_is_alive(t.thread) and self.failure is None:
          self.failure = ('leak', 'thread %r did not exit at the end of the case\n%s' % (t, dump_stacks()))
    if ACTIVE[0] is self:
      ACTIVE[0] = None

  def spawn(self, thread):
    self._check_abort()
    ts = TState(len(self.threads), getattr(thread, '_name', None) or 'thread', thread)
    self.threads.append(ts)
    orig_run = thread.run
    sched = self

    def run_wrapper():
      ts.sem.acquire()
      if sched.aborted:
        ts.status = 'done'
        return
      try:
        orig_run()
      except SchedulerAbort:
        pass
      finally:
        sched._thread_exit(ts)

    thread.run = run_wrapper
    thread._vsched_ts = ts  # pylint: disable=protected-access
    _real_start(thread)
    ts.ident = thread.ident
    self.by_ident[ts.ident] = ts
    ts.started = True
    self.yield_point(('thread.start', ts.idx))

  def _thread_exit(self, ts):
    ts.status = 'done'
    if self.aborted:
      return
    for j in ts.joiners:
      self._wake(j, 'joined')
    ts.joiners = []
    try:
      nxt = self._choose()
    except Deadlock as e:
      self._fail('deadlock', str(e))
      return
    self.current = nxt
    nxt.sem.release()

  def join(self, thread, timeout=None):
    ts = getattr(thread, '_vsched_ts', None)
    me = self.me()
    if ts is None or me is None:
      return _real_join(thread, timeout)
    deadline = None if timeout is None else self.now + max(0.0, timeout)
    while ts.status != 'done':
      self.yield_point(('join', ts.idx), me)
      if ts.status == 'done':
        break
      if deadline is not None and self.now >= deadline:
        break
      ts.joiners.append(me)
      reason = self.block(me, deadline, ('join', ts.idx))
      if me in ts.joiners:
        ts.joiners.remove(me)
      self._deliver(me)
      if reason == 'timeout':
        break
    return None

  def park(self, name):
    """Blocks the calling helper thread until a plan entry ('wake', name) releases it. Returns False at case end."""
    me = self.me()
    self.named[name] = me
    reason = self.block(me, None, ('parked', name))
    return reason == 'inject'

  def is_alive(self, thread):
    ts = getattr(thread, '_vsched_ts', None)
    if ts is None:
      return _real_is_alive(thread)
    return ts.started and ts.status != 'done'

  def async_exc(self, ident, exc):
    ts = self.by_ident.get(ident)
    if ts is None or ts.status == 'done':
      return 0
    ts.pending_exc = exc
    return 1

  # ------------------------------------------------------------------ time
  def time(self):
    return self.base_time + self.now

  def monotonic(self):
    return 1000.0 + self.now

  def sleep(self, d):
    me = self.me()
    if me is None:
      return real_time.sleep(d)
    if d <= 0:
      self.yield_point(('sleep', 0), me)
      return
    # a scheduling point right before going to sleep (sleeping has no condition to re-check, so nothing can be lost):
    # plans can preempt the thread or inject an abort between two sleeps of a body
    self.yield_point(('sleep', d), me)
    self.block(me, self.now + d, ('sleep', d))
    self._deliver(me)


def dump_stacks():
  out = []
  for ident, frame in sys._current_frames().items():  # pylint: disable=protected-access
    out.append('--- thread %s\n%s' % (ident, ''.join(traceback.format_stack(frame)[-6:])))
  return '\n'.join(out)


# ---------------------------------------------------------------------- virtual primitives
def _sched():
  s = ACTIVE[0]
  if s is None:
    raise SchedulerAbort()
  return s


class VLock(object):

  def __init__(self, sched=None):
    self.s = sched or _sched()
    self.owner = None
    self.waiters = []

  def acquire(self, blocking=True, timeout=-1):
    s = self.s
    me = s.me()
    if me is None:
      raise RuntimeError('virtual lock used by an unmanaged thread')
    s.yield_point(('lock.acquire', id(self) & 0xffff), me)
    deadline = None if (timeout is None or timeout < 0) else s.now + timeout
    while True:
      if self.owner is None:
        self.owner = me
        return True
      if not blocking:
        return False
      if deadline is not None and s.now >= deadline:
        return False
      self.waiters.append(me)
      reason = s.block(me, deadline, ('lock', id(self) & 0xffff, 'held by T%d' % self.owner.idx))
      if me in self.waiters:
        self.waiters.remove(me)
      if reason == 'signal':
        s._deliver(me)  # pylint: disable=protected-access

  def release(self):
    s = self.s
    if self.owner is None:
      raise RuntimeError('release unlocked lock')
    self.owner = None
    if self.waiters:
      s._wake(self.waiters.pop(0), 'lock')  # pylint: disable=protected-access
    if not s.aborted:
      s.yield_point(('lock.release', id(self) & 0xffff))

  def locked(self):
    return self.owner is not None

  def __enter__(self):
    self.acquire()
    return self

  def __exit__(self, *a):
    self.release()


class VRLock(object):

  def __init__(self, sched=None):
    self.s = sched or _sched()
    self.owner = None
    self.count = 0
    self.waiters = []

  def acquire(self, blocking=True, timeout=-1):
    s = self.s
    me = s.me()
    if me is None:
      raise RuntimeError('virtual rlock used by an unmanaged thread')
    if self.owner is me:
      self.count += 1
      return True
    s.yield_point(('rlock.acquire', id(self) & 0xffff), me)
    deadline = None if (timeout is None or timeout < 0) else s.now + timeout
    while True:
      if self.owner is None:
        self.owner = me
        self.count = 1
        return True
      if not blocking:
        return False
      if deadline is not None and s.now >= deadline:
        return False
      self.waiters.append(me)
      reason = s.block(me, deadline, ('rlock', id(self) & 0xffff, 'held by T%d' % self.owner.idx))
      if me in self.waiters:
        self.waiters.remove(me)
      if reason == 'signal':
        s._deliver(me)  # pylint: disable=protected-access

  def release(self):
    s = self.s
    me = s.me()
    if self.owner is not me:
      raise RuntimeError('cannot release un-acquired lock')
    self.count -= 1
    if self.count == 0:
      self.owner = None
      if self.waiters:
        s._wake(self.waiters.pop(0), 'lock')  # pylint: disable=protected-access
      if not s.aborted:
        s.yield_point(('rlock.release', id(self) & 0xffff))

  def _is_owned(self):
    return self.owner is self.s.me()

  def _release_save(self):
    state = (self.count, self.owner)
    self.count = 0
    self.owner = None
    if self.waiters:
      self.s._wake(self.waiters.pop(0), 'lock')  # pylint: disable=protected-access
    return state

  def _acquire_restore(self, state):
    s = self.s
    me = s.me()
    while self.owner is not None:
      self.waiters.append(me)
      s.block(me, None, ('rlock-restore', id(self) & 0xffff))
      if me in self.waiters:
        self.waiters.remove(me)
    self.count, self.owner = state

  def __enter__(self):
    self.acquire()
    return self

  def __exit__(self, *a):
    self.release()


class VEvent(object):

  def __init__(self, sched=None):
    self.s = sched or _sched()
    self.flag = False
    self.waiters = []

  def is_set(self):
    return self.flag

  isSet = is_set

  def set(self):
    s = self.s
    s.yield_point(('event.set', id(self) & 0xffff))
    self.flag = True
    for w in self.waiters:
      s._wake(w, 'event')  # pylint: disable=protected-access
    self.waiters = []

  def clear(self):
    self.flag = False

  def wait(self, timeout=None):
    s = self.s
    me = s.me()
    if me is None:
      raise RuntimeError('virtual event used by an unmanaged thread')
    s.yield_point(('event.wait', id(self) & 0xffff), me)
    deadline = None if timeout is None else s.now + max(0.0, timeout)
    while not self.flag:
      if deadline is not None and s.now >= deadline:
        break
      self.waiters.append(me)
      reason = s.block(me, deadline, ('event', id(self) & 0xffff))
      if me in self.waiters:
        self.waiters.remove(me)
      s._deliver(me)  # pylint: disable=protected-access
      if reason == 'timeout':
        break
    return self.flag


class VCondition(object):

  def __init__(self, lock=None, sched=None):
    self.s = sched or _sched()
    self.lock = lock if lock is not None else VRLock(self.s)
    self.waiters = []
    self.acquire = self.lock.acquire
    self.release = self.lock.release

  def __enter__(self):
    return self.lock.__enter__()

  def __exit__(self, *a):
    return self.lock.__exit__(*a)

  def _owned(self):
    if isinstance(self.lock, VRLock):
      return self.lock._is_owned()  # pylint: disable=protected-access
    return self.lock.owner is self.s.me()

  def wait(self, timeout=None):
    s = self.s
    me = s.me()
    if not self._owned():
      raise RuntimeError('cannot wait on un-acquired lock')
    deadline = None if timeout is None else s.now + max(0.0, timeout)
    entry = [me, False]
    self.waiters.append(entry)
    if isinstance(self.lock, VRLock):
      saved = self.lock._release_save()  # pylint: disable=protected-access
    else:
      saved = None
      self.lock.owner = None
      if self.lock.waiters:
        s._wake(self.lock.waiters.pop(0), 'lock')  # pylint: disable=protected-access
    try:
      while not entry[1]:
        if deadline is not None and s.now >= deadline:
          break
        reason = s.block(me, deadline, ('cond', id(self) & 0xffff))
        if reason == 'timeout':
          break
    finally:
      if entry in self.waiters:
        self.waiters.remove(entry)
      if saved is not None:
        self.lock._acquire_restore(saved)  # pylint: disable=protected-access
      else:
        while self.lock.owner is not None:
          self.lock.waiters.append(me)
          s.block(me, None, ('lock-restore', id(self.lock) & 0xffff))
          if me in self.lock.waiters:
            self.lock.waiters.remove(me)
        self.lock.owner = me
    s._deliver(me)  # pylint: disable=protected-access
    return entry[1]

  def wait_for(self, predicate, timeout=None):
    endtime = None if timeout is None else self.s.now + timeout
    result = predicate()
    while not result:
      if endtime is not None:
        waittime = endtime - self.s.now
        if waittime <= 0:
          break
        self.wait(waittime)
      else:
        self.wait(None)
      result = predicate()
    return result

  def notify(self, n=1):
    if not self._owned():
      raise RuntimeError('cannot notify on un-acquired lock')
    s = self.s
    for entry in self.waiters[:n]:
      entry[1] = True
      s._wake(entry[0], 'notify')  # pylint: disable=protected-access
    self.waiters = self.waiters[n:]
    s.yield_point(('cond.notify', id(self) & 0xffff))

  def notify_all(self):
    self.notify(len(self.waiters))

  notifyAll = notify_all


class VSemaphore(object):

  def __init__(self, value=1, sched=None):
    self.s = sched or _sched()
    self.value = value
    self.waiters = []

  def acquire(self, blocking=True, timeout=None):
    s = self.s
    me = s.me()
    s.yield_point(('sem.acquire', id(self) & 0xffff), me)
    deadline = None if timeout is None else s.now + timeout
    while self.value <= 0:
      if not blocking or (deadline is not None and s.now >= deadline):
        return False
      self.waiters.append(me)
      s.block(me, deadline, ('sem', id(self) & 0xffff))
      if me in self.waiters:
        self.waiters.remove(me)
    self.value -= 1
    return True

  def release(self, n=1):
    self.value += n
    for _ in range(n):
      if self.waiters:
        self.s._wake(self.waiters.pop(0), 'sem')  # pylint: disable=protected-access
    self.s.yield_point(('sem.release', id(self) & 0xffff))

  __enter__ = acquire

  def __exit__(self, *a):
    self.release()


class VQueue(object):

  def __init__(self, maxsize=0, sched=None):
    self.s = sched or _sched()
    self.items = collections.deque()
    self.waiters = []

  def qsize(self):
    return len(self.items)

  def empty(self):
    return not self.items

  def put(self, item, block=True, timeout=None):
    s = self.s
    s.yield_point(('queue.put', id(self) & 0xffff))
    self.items.append(item)
    if self.waiters:
      s._wake(self.waiters.pop(0), 'queue')  # pylint: disable=protected-access

  put_nowait = put

  def get(self, block=True, timeout=None):
    s = self.s
    me = s.me()
    s.yield_point(('queue.get', id(self) & 0xffff), me)
    deadline = None if timeout is None else s.now + max(0.0, timeout)
    while not self.items:
      if not block or (deadline is not None and s.now >= deadline):
        raise real_queue.Empty()
      self.waiters.append(me)
      reason = s.block(me, deadline, ('queue', id(self) & 0xffff))
      if me in self.waiters:
        self.waiters.remove(me)
      s._deliver(me)  # pylint: disable=protected-access
    return self.items.popleft()

  def get_nowait(self):
    return self.get(False)


# ---------------------------------------------------------------------- module proxies
class _Dispatch(object):
  """Base for namespace proxies: virtual behaviour for managed threads of the active scheduler, real otherwise."""

  @staticmethod
  def _managed():
    s = ACTIVE[0]
    if s is None:
      return None
    return s if s.me() is not None else None


class ThreadingProxy(_Dispatch):

  def __getattr__(self, name):
    return getattr(real_threading, name)

  def Lock(self):  # pylint: disable=invalid-name
    s = self._managed()
    return VLock(s) if s else real_threading.Lock()

  def RLock(self):  # pylint: disable=invalid-name
    s = self._managed()
    return VRLock(s) if s else real_threading.RLock()

  def Event(self):  # pylint: disable=invalid-name
    s = self._managed()
    return VEvent(s) if s else real_threading.Event()

  def Condition(self, lock=None):  # pylint: disable=invalid-name
    s = self._managed()
    return VCondition(lock, s) if s else real_threading.Condition(lock)

  def Semaphore(self, value=1):  # pylint: disable=invalid-name
    s = self._managed()
    return VSemaphore(value, s) if s else real_threading.Semaphore(value)


class TimeProxy(_Dispatch):

  def __getattr__(self, name):
    return getattr(real_time, name)

  def time(self):
    s = self._managed()
    return s.time() if s else real_time.time()

  def monotonic(self):
    s = self._managed()
    return s.monotonic() if s else real_time.monotonic()

  def sleep(self, d):
    s = self._managed()
    return s.sleep(d) if s else real_time.sleep(d)


class QueueProxy(_Dispatch):
  Empty = real_queue.Empty
  Full = real_queue.Full

  def __getattr__(self, name):
    return getattr(real_queue, name)

  def Queue(self, maxsize=0):  # pylint: disable=invalid-name
    s = self._managed()
    return VQueue(maxsize, s) if s else real_queue.Queue(maxsize)


class _PyApi(object):

  @staticmethod
  def PyThreadState_SetAsyncExc(ident, exc):  # pylint: disable=invalid-name
    import ctypes  # pylint: disable=g-import-not-at-top
    s = ACTIVE[0]
    ident_v = getattr(ident, 'value', ident)
    exc_v = getattr(exc, 'value', exc)
    if s is not None and s.me() is not None:
      return s.async_exc(ident_v, exc_v)
    return ctypes.pythonapi.PyThreadState_SetAsyncExc(ident, exc)


class CtypesProxy(object):
  pythonapi = _PyApi()

  def __getattr__(self, name):
    import ctypes  # pylint: disable=g-import-not-at-top
    return getattr(ctypes, name)


THREADING, TIME, QUEUE, CTYPES = ThreadingProxy(), TimeProxy(), QueueProxy(), CtypesProxy()
_PATCHED = {'done': False}


def _patched_start(self):
  s = ACTIVE[0]
  if s is not None and s.me() is not None:
    return s.spawn(self)
  return _real_start(self)


def _patched_join(self, timeout=None):
  s = ACTIVE[0]
  if s is not None and s.me() is not None and getattr(self, '_vsched_ts', None) is not None:
    return s.join(self, timeout)
  return _real_join(self, timeout)


def _patched_is_alive(self):
  s = ACTIVE[0]
  if s is not None and getattr(self, '_vsched_ts', None) is not None and self._vsched_ts in s.threads:  # pylint: disable=protected-access
    return s.is_alive(self)
  return _real_is_alive(self)


def install_patches():
  """Class-level patches of threading.Thread (dispatching) - installed once per process."""
  if not _PATCHED['done']:
    real_threading.Thread.start = _patched_start
    real_threading.Thread.join = _patched_join
    real_threading.Thread.is_alive = _patched_is_alive
    _PATCHED['done'] = True


_PROXIED = []


def install_proxies(modules):
  """Gives the listed (already imported) modules proxy threading/time/queue/ctypes objects. Idempotent."""
  for mod in modules:
    if mod not in _PROXIED:
      _PROXIED.append(mod)
    if hasattr(mod, 'threading'):
      mod.threading = THREADING
    if hasattr(mod, 'time') and not callable(getattr(mod, 'time')):
      mod.time = TIME
    if hasattr(mod, 'queue'):
      mod.queue = QUEUE
    if hasattr(mod, 'ctypes'):
      mod.ctypes = CTYPES


class module_locks(object):  # pylint: disable=invalid-name
  """with module_locks(mod, ...): (entered by a managed thread) locks created at import time as globals of the modules
  under test are replaced by scheduler-aware ones for the duration of the run, so that a thread preempted while holding
  one does not block the others for real."""

  def __init__(self, *mods):
    self.mods = mods
    self.saved = []

  def __enter__(self):
    lock_t, rlock_t = type(real_threading.Lock()), type(real_threading.RLock())
    for mod in self.mods:
      for name, val in list(vars(mod).items()):
        if isinstance(val, lock_t):
          self.saved.append((mod, name, val))
          setattr(mod, name, VLock())
        elif isinstance(val, rlock_t):
          self.saved.append((mod, name, val))
          setattr(mod, name, VRLock())
    return self

  def __exit__(self, *a):
    for mod, name, val in self.saved:
      setattr(mod, name, val)
    self.saved = []


# ---------------------------------------------------------------------- line-level yield points
_WITH_EXITS = {}


def _with_exit_offsets(code):
  """Offsets at which the normal-exit clean-up of a `with` statement starts (LOAD_CONST None x3; CALL 2).  A LINE event is
  reported there (for the line of the `with`), but CPython checks its eval breaker - where asynchronous exceptions and
  signal handlers start - only after the call of __exit__: an exception 'between the body and __exit__' cannot happen."""
  out = _WITH_EXITS.get(code)
  if out is None:
    import dis  # pylint: disable=g-import-not-at-top
    ins = list(dis.get_instructions(code))
    out = set()
    for i in range(len(ins) - 3):
      a, b, c, d = ins[i:i + 4]
      if (a.opname == b.opname == c.opname == 'LOAD_CONST' and a.argval is None and b.argval is None and c.argval is None and
          d.opname == 'CALL' and d.arg == 2):
        out.add(a.offset)
    _WITH_EXITS[code] = out
  return out


def _on_line(code, line):
  s = ACTIVE[0]
  if s is None or s.aborted:
    return None
  ts = s.by_ident.get(_get_ident())
  if ts is None or ts.in_sched or ts.status == 'done':
    return None
  exits = _with_exit_offsets(code)
  deliver = True
  if exits:
    try:
      deliver = sys._getframe(1).f_lasti not in exits  # pylint: disable=protected-access
    except ValueError:
      pass
  s.yield_point(('line', code.co_name, line), ts, deliver=deliver)
  return None


def monitor_lines(code_objects):
  """Every source line of the given code objects becomes a yield point (sys.monitoring LINE events)."""
  mon = sys.monitoring
  if not _MON['registered']:
    try:
      mon.use_tool_id(TOOL_ID, 'vsched')
    except ValueError:
      pass
    mon.register_callback(TOOL_ID, mon.events.LINE, _on_line)
    _MON['registered'] = True
  for c in code_objects:
    if c not in _MON['codes']:
      mon.set_local_events(TOOL_ID, c, mon.events.LINE)
      _MON['codes'].add(c)


def code_objects_of(*things):
  """Collects the code objects of functions / classes (all their methods, properties included)."""
  out = []
  for th in things:
    if isinstance(th, type):
      for v in vars(th).values():
        out += code_objects_of(v)
    elif isinstance(th, (staticmethod, classmethod)):
      out += code_objects_of(th.__func__)
    elif isinstance(th, property):
      out += [f.__code__ for f in (th.fget, th.fset, th.fdel) if f is not None and hasattr(f, '__code__')]
    elif hasattr(th, '__wrapped__') and hasattr(th, '__code__'):
      out += [th.__code__] + code_objects_of(th.__wrapped__)
    elif hasattr(th, '__code__'):
      out.append(th.__code__)
  res = []
  for c in out:
    res.append(c)
    # nested functions / generators / lambdas defined inside
    stack = [c]
    while stack:
      cc = stack.pop()
      for const in cc.co_consts:
        if hasattr(const, 'co_code'):
          res.append(const)
          stack.append(const)
  return list(dict.fromkeys(res))
