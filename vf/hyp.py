"""Hypothesis driver: seeded, database-less search with bucketed violations and a budgeted shrink.

`search()` runs `check(case)` on generated cases.  `check` returns a CaseResult;
each violation carries a root-cause *signature*.  Signatures listed as known
findings are counted and excluded; every other signature makes the Hypothesis
test fail so that the library shrinks it.  Shrinking is budgeted: once the budget
is spent, cases not seen before are answered "passes" without running them
(previously seen ones are answered from a cache, so the final replay of the
minimal example is consistent).  After a failure the signatures found are
excluded and the same seeded search is run again, so one shallow defect cannot
hide another (up to `max_buckets`).
"""
import time

import hypothesis
from hypothesis import HealthCheck, Phase, Verbosity, given, settings

from vf.accounting import canon


class CaseResult(object):
  __slots__ = ('nontrivial', 'classes', 'violations', 'sched')

  def __init__(self, nontrivial=False, classes=(), violations=()):
    self.nontrivial = nontrivial
    self.classes = list(classes)
    self.violations = list(violations)  # [(sig, detail)]

  def bad(self, sig, detail=''):
    self.violations.append((sig, detail))


class _Violation(Exception):
  pass


def search(acct, strategy, check, seed, max_examples, known=(), to_json=None,
           shrink=True, shrink_budget_s=25.0, max_buckets=4):
  """Returns nothing; everything is recorded in `acct`."""
  known = set(known)
  excluded = set()
  cache = {}
  state = {'deadline': None}
  to_json = to_json or (lambda c: c)
  phases = [Phase.generate] + ([Phase.shrink] if shrink else [])

  def body(case):
    j = to_json(case)
    key = canon(j)
    res = cache.get(key)
    if res is None:
      if state['deadline'] is not None and time.time() > state['deadline']:
        return
      r = check(case)
      acct.case(j, r.nontrivial, r.classes)
      res = (tuple(r.violations),)
      cache[key] = res
      for sig, detail in res[0]:
        if sig in known:
          acct.known(sig, j, detail)
    for sig, detail in res[0]:
      if sig in known or sig in excluded:
        continue
      acct.violation(sig, j, detail)
      if state['deadline'] is None:
        state['deadline'] = time.time() + shrink_budget_s
      raise _Violation(sig)

  for _ in range(max_buckets):
    state['deadline'] = None
    test = settings(
        max_examples=max_examples, database=None, deadline=None, derandomize=False,
        report_multiple_bugs=False, phases=phases, verbosity=Verbosity.quiet,
        suppress_health_check=list(HealthCheck))(
            hypothesis.seed(seed)(given(strategy)(body)))
    try:
      test()
    except _Violation:
      excluded.update(acct.violations.keys())
      continue
    except hypothesis.errors.Flaky as e:  # an oracle that is not a function of the case: harness bug
      raise RuntimeError('flaky case under search (harness error): %r' % (e,))
    break
