"""Case accounting: evaluations, distinct non-trivial cases, classes, samples, violations.

An Acct lives in one worker process for one job; `to_dict()` is what travels back
to the runner, `merge()` combines the per-job results.
"""
import collections
import hashlib
import json


def canon(obj):
  return json.dumps(obj, sort_keys=True, default=repr, separators=(',', ':'))


def h64(obj):
  if not isinstance(obj, str):
    obj = canon(obj)
  return int.from_bytes(
      hashlib.blake2b(obj.encode('utf-8', 'surrogatepass'), digest_size=8).digest(), 'big')


_N_LOW = 3  # reservoir (lowest hashes) of non-trivial samples


class Acct(object):

  def __init__(self):
    self.evaluations = 0
    self.nontrivial = set()
    self.classes = collections.Counter()
    self.first_samples = []
    self.low_samples = []  # [(hash, case)] the _N_LOW lowest hashes: a seed-independent 'random' pick
    self.last_sample = None
    self.violations = {}  # sig -> {'sig', 'case', 'detail', 'size', 'count'}
    self.known_hits = {}  # sig -> {'detail', 'count', 'case'}
    self.excluded_known = 0
    self.extra = collections.Counter()
    self.exhaustive_parts = []
    self.notes = []

  # -- cases -----------------------------------------------------------------
  def case(self, case, nontrivial, classes=(), weight=1):
    """Record one executed case. `case` must be JSON-able (it is what a reader sees)."""
    self.evaluations += weight
    for c in classes:
      self.classes[c] += 1
    if nontrivial:
      h = h64(case)
      if h not in self.nontrivial:
        self.nontrivial.add(h)
        if len(self.first_samples) < 2:
          self.first_samples.append(case)
        if len(self.low_samples) < _N_LOW or h < self.low_samples[-1][0]:
          self.low_samples.append((h, case))
          self.low_samples.sort(key=lambda t: t[0])
          del self.low_samples[_N_LOW:]
        self.last_sample = case

  def bulk(self, evaluations, nontrivial_hashes, classes=None, samples=()):
    self.evaluations += evaluations
    self.nontrivial.update(nontrivial_hashes)
    if classes:
      self.classes.update(classes)
    for s in samples:
      if len(self.first_samples) < 2:
        self.first_samples.append(s)
      self.last_sample = s

  # -- violations --------------------------------------------------------------
  def violation(self, sig, case, detail):
    size = len(canon(case))
    cur = self.violations.get(sig)
    if cur is None:
      self.violations[sig] = {'sig': sig, 'case': case, 'detail': detail, 'size': size, 'count': 1}
    else:
      cur['count'] += 1
      if size < cur['size']:
        cur.update(case=case, detail=detail, size=size)

  def known(self, sig, case, detail):
    self.excluded_known += 1
    cur = self.known_hits.get(sig)
    if cur is None:
      self.known_hits[sig] = {'sig': sig, 'case': case, 'detail': detail, 'count': 1}
    else:
      cur['count'] += 1

  # -- transport ---------------------------------------------------------------
  def to_dict(self):
    return {
        'evaluations': self.evaluations,
        'nontrivial': self.nontrivial,
        'classes': dict(self.classes),
        'first_samples': self.first_samples,
        'low_samples': self.low_samples,
        'last_sample': self.last_sample,
        'violations': self.violations,
        'known_hits': self.known_hits,
        'excluded_known': self.excluded_known,
        'extra': dict(self.extra),
        'exhaustive_parts': self.exhaustive_parts,
        'notes': self.notes,
    }

  def merge(self, d):
    self.evaluations += d['evaluations']
    self.nontrivial |= d['nontrivial']
    self.classes.update(d['classes'])
    for s in d['first_samples']:
      if len(self.first_samples) < 2:
        self.first_samples.append(s)
    self.low_samples = sorted(self.low_samples + [tuple(x) for x in d['low_samples']],
                              key=lambda t: t[0])[:_N_LOW]
    if d['last_sample'] is not None:
      self.last_sample = d['last_sample']
    for sig, v in d['violations'].items():
      cur = self.violations.get(sig)
      if cur is None:
        self.violations[sig] = dict(v)
      else:
        cur['count'] += v['count']
        if v['size'] < cur['size']:
          cur.update(case=v['case'], detail=v['detail'], size=v['size'])
    for sig, v in d['known_hits'].items():
      cur = self.known_hits.get(sig)
      if cur is None:
        self.known_hits[sig] = dict(v)
      else:
        cur['count'] += v['count']
    self.excluded_known += d['excluded_known']
    self.extra.update(d['extra'])
    self.exhaustive_parts += d['exhaustive_parts']
    self.notes += d['notes']

  def samples(self):
    out = []
    seen = set()
    for s in self.first_samples + [c for _, c in self.low_samples] + (
        [self.last_sample] if self.last_sample is not None else []):
      k = canon(s)
      if k not in seen:
        seen.add(k)
        out.append(s)
    return out
