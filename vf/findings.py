"""known_findings.txt handling (read-only at run time).

Line formats:
  known: property=<id> sig=<signature> :: <what fails>
  fixed: property=<id> <commit> <what failed>
A `known` entry turns a violation with exactly that root-cause signature into a
`KNOWN-FINDING:` line (exit 0).  A `fixed` entry suppresses nothing.
"""
import os
import re

PATH = os.path.join(os.path.dirname(os.path.dirname(os.path.abspath(__file__))), 'known_findings.txt')

_KNOWN = re.compile(r'^known:\s+property=(\S+)\s+sig=(\S+)\s+::\s*(.*)$')


def load(prop_id, path=PATH):
  """Returns {signature: what} of the known (unrepaired) findings of one property."""
  out = {}
  if not os.path.exists(path):
    return out
  with open(path) as f:
    for line in f:
      m = _KNOWN.match(line.strip())
      if m and m.group(1) == prop_id:
        out[m.group(2)] = m.group(3)
  return out
