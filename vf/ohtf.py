"""Import openhtf from $VERIF_REPO with a neutral environment and reset its process-global state per case."""
import logging
import os
import sys
import threading

_STATE = {'imported': False, 'baseline_handlers': None, 'tmpdir': None}


def load():
  """Imports openhtf (once per process) and returns the top-level module."""
  if not _STATE['imported']:
    repo = os.environ.get('VERIF_REPO', '/repo')
    if repo not in sys.path:
      sys.path.insert(0, repo)
    sys.argv = [sys.argv[0] if sys.argv else 'verif']
    import openhtf  # pylint: disable=g-import-not-at-top
    from openhtf.util import console_output  # pylint: disable=g-import-not-at-top
    from openhtf.util import logs  # pylint: disable=g-import-not-at-top
    assert os.path.realpath(openhtf.__file__).startswith(os.path.realpath(repo)), (openhtf.__file__, repo)
    console_output.CLI_QUIET = True
    logs.configure_logging()
    _STATE['baseline_handlers'] = list(logging.getLogger('openhtf').handlers)
    _STATE['imported'] = True
    # Exceptions in executor threads are an observation, not console noise.
    threading.excepthook = _excepthook
    sys.unraisablehook = _unraisablehook
  import openhtf  # pylint: disable=g-import-not-at-top
  return openhtf


THREAD_EXCEPTIONS = []


def _excepthook(args):
  if args.exc_type is SystemExit:
    return
  THREAD_EXCEPTIONS.append((args.thread.name if args.thread else '?', args.exc_type.__name__, str(args.exc_value),
                            _innermost_openhtf_frame(args.exc_traceback)))


def _unraisablehook(unraisable):
  # An async ThreadTerminationError delivered inside a GC/weakref callback of a killed phase thread: noise.
  if unraisable.exc_type is not None and unraisable.exc_type.__name__ == 'ThreadTerminationError':
    return
  sys.__unraisablehook__(unraisable)


def _innermost_openhtf_frame(tb):
  where = None
  while tb is not None:
    fn = tb.tb_frame.f_code.co_filename
    if os.sep + 'openhtf' + os.sep in fn:
      where = '%s:%s' % (os.path.basename(fn), tb.tb_frame.f_code.co_name)
    tb = tb.tb_next
  return where


def baseline_handlers():
  return list(_STATE['baseline_handlers'])


def reset_case(**conf_values):
  """Resets the process-global state openhtf keeps between runs; loads the case's CONF values."""
  htf = load()
  from openhtf.util import configuration  # pylint: disable=g-import-not-at-top
  from openhtf.util import console_output  # pylint: disable=g-import-not-at-top
  from openhtf.util import logs  # pylint: disable=g-import-not-at-top
  conf = configuration.CONF
  conf.reset()
  if conf_values:
    conf.load(**conf_values)
  htf.Test.HANDLED_SIGINT_ONCE = False
  console_output.CLI_QUIET = True
  logs._LOG_ONCE_SEEN.clear()  # pylint: disable=protected-access
  lg = logging.getLogger('openhtf')
  lg.handlers[:] = baseline_handlers()
  del THREAD_EXCEPTIONS[:]
  return htf


def live_test_instances():
  htf = load()
  return len(htf.Test.TEST_INSTANCES)
