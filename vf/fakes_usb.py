"""Import stubs for the USB plug stack, an independent ADB header codec, and scripted fake devices.

The ADB/fastboot code is Python-2 era: payloads are `str` whose code points stand for bytes (latin-1), headers are
`bytes`.  The fakes therefore hand 24-byte headers back as bytes and payloads as str - the only shapes the code accepts.
"""
import collections
import struct
import sys
import threading
import time
import types

_MODS = {}
LIBUSB_ERROR_TIMEOUT = -7


def load():
  """Stubs libusb1/usb1/M2Crypto and imports the protocol modules from the repo under test."""
  if not _MODS:
    from vf import ohtf  # pylint: disable=g-import-not-at-top
    ohtf.load()
    if 'libusb1' not in sys.modules:
      m = types.ModuleType('libusb1')
      m.LIBUSB_ERROR_TIMEOUT = LIBUSB_ERROR_TIMEOUT
      m.USBError = type('USBError', (Exception,), {})
      sys.modules['libusb1'] = m
    if 'usb1' not in sys.modules:
      sys.modules['usb1'] = types.ModuleType('usb1')
    if 'M2Crypto' not in sys.modules:
      m = types.ModuleType('M2Crypto')
      m.RSA = types.SimpleNamespace()
      sys.modules['M2Crypto'] = m
    from openhtf.plugs.usb import adb_message, adb_protocol, fastboot_protocol, usb_exceptions  # pylint: disable=g-import-not-at-top
    # the rest of the package, as every user of openhtf.plugs.usb gets it (adb_device pulls in the filesync and shell
    # services, whose class bodies build their own command tables)
    from openhtf.plugs.usb import adb_device, fastboot_device, filesync_service, shell_service  # pylint: disable=g-import-not-at-top,unused-import
    _MODS.update(adb_message=adb_message, adb_protocol=adb_protocol, fastboot_protocol=fastboot_protocol,
                 usb_exceptions=usb_exceptions)
  return types.SimpleNamespace(**_MODS)


# ------------------------------------------------------------------ independent ADB codec (the C13 reference)
COMMANDS = ['SYNC', 'CNXN', 'AUTH', 'OPEN', 'OKAY', 'CLSE', 'WRTE']


def cmd_word(cmd):
  return int.from_bytes(cmd.encode('ascii'), 'little')


def checksum(payload):
  return sum(payload.encode('latin-1')) & 0xFFFFFFFF


def header(cmd, arg0, arg1, payload, length=None, csum=None, word=None):
  w = cmd_word(cmd) if word is None else word
  return struct.pack('<IIIIII', w, arg0 & 0xFFFFFFFF, arg1 & 0xFFFFFFFF, len(payload) if length is None else length,
                     checksum(payload) if csum is None else csum, w ^ 0xFFFFFFFF)


def parse_header(raw):
  w, a0, a1, ln, cs, magic = struct.unpack('<IIIIII', raw)
  try:
    cmd = w.to_bytes(4, 'little').decode('ascii')
  except UnicodeDecodeError:
    cmd = None
  return {'cmd': cmd if cmd in COMMANDS else None, 'word': w, 'arg0': a0, 'arg1': a1, 'len': ln, 'sum': cs, 'magic': magic}


class FakeUsbError(Exception):
  def __init__(self, value):
    super(FakeUsbError, self).__init__('usb error %s' % value)
    self.value = value


def timeout_error():
  u = load().usb_exceptions
  return u.UsbReadFailedError(FakeUsbError(LIBUSB_ERROR_TIMEOUT), 'fake transport: read timed out')


# ------------------------------------------------------------------ transports
class ChunkTransport(object):
  """Records host writes as chunks; serves reads from a prepared chunk list (bytes headers, str payloads)."""

  def __init__(self, read_chunks=(), on_write=None):
    self.written = []
    self.to_read = collections.deque(read_chunks)
    self.on_write = on_write
    self.closed = False
    self.read_calls = []

  def write(self, data, timeout_ms=None):
    self.written.append(data)
    self.budgets = getattr(self, 'budgets', [])
    self.budgets.append(timeout_ms)
    if self.on_write is not None:
      self.on_write(self, data)
    return len(data)

  def read(self, length, timeout_ms=None):
    self.read_calls.append(length)
    if not self.to_read:
      raise timeout_error()
    return self.to_read.popleft()

  def close(self):
    self.closed = True

  def __str__(self):
    return '<ChunkTransport>'


def frame_chunks(cmd, arg0, arg1, payload):
  """What a well-behaved device hands to two successive reads (header; payload only if non-empty)."""
  out = [header(cmd, arg0, arg1, payload)]
  if payload:
    out.append(payload)
  return out


class ScriptedAdbDevice(object):
  """A reactive fake adbd behind a read/write transport.

  script: per stream index (in order of the host's OPENs):
     {'open': 'OKAY'|'CLSE'|'WRTE'|'WRONGID'|'SILENT', 'wrtes': [payload,...], 'close': bool, 'ack_host_writes': bool}
  merge: list of stream indices, the order in which pending device WRTEs are released (flow control permitting).
  Device behaviour: next WRTE on a stream only after the host's OKAY for the previous one; an OKAY for every host
  WRTE (if ack_host_writes); CLSE at the end of a stream's script if close.
  `wait` blocks the reader until data is available or the timeout passes (real or virtual primitives are injected
  through `cond_factory` and `clock`).
  """

  def __init__(self, script, merge=None, maxdata=4096, cond_factory=threading.Condition, banner='device:SER123:fake banner',
               handshake=None, max_block_s=2.0, clock=None):
    self.script = script
    self.merge = list(merge or [])
    self.maxdata = maxdata
    self.banner = banner
    self.cond = cond_factory()
    self.out = collections.deque()   # chunks ready to be read by the host
    self.out_meta = collections.deque()
    self.log = []                    # ('host', parsed header, payload) / ('dev', cmd, arg0, arg1, payload)
    self.streams = []                # per OPEN: dict(local, remote, idx, sent, awaiting_ack, opened, closed)
    self.by_local = {}
    self._pending_header = None
    self.handshake = list(handshake) if handshake is not None else None
    self.max_block_s = max_block_s
    self.closed = False
    self.blocked_forever = 0
    self.violations = []

  # -- device side helpers ------------------------------------------------------
  def _emit(self, cmd, arg0, arg1, payload='', meta=None, payload_delay_s=None):
    self.log.append(('dev', cmd, arg0, arg1, payload))
    for n, c in enumerate(frame_chunks(cmd, arg0, arg1, payload)):
      self.out.append(c)
      # the payload of a frame is a USB transfer of its own: it may become readable later than its header
      self.out_meta.append(['ack', None, payload_delay_s] if (n == 1 and payload_delay_s) else meta)

  def _pump(self):
    """Release device WRTEs/CLSEs according to merge order and flow control."""
    progress = True
    while progress:
      progress = False
      order = self.merge if self.merge else list(range(len(self.streams)))
      for pos, idx in enumerate(list(order)):
        if idx >= len(self.streams):
          continue
        s = self.streams[idx]
        if not s['opened'] or s['closed'] or s['awaiting_ack']:
          continue
        sc = self.script[idx] if idx < len(self.script) else {}
        wr = sc.get('wrtes', [])
        if sc.get('echo') and not s.get('host_data'):
          continue      # a request/response service: silent until the host has written on this stream
        if s['sent'] < len(wr):
          self._emit('WRTE', s['remote'], s['local'], wr[s['sent']], payload_delay_s=sc.get('payload_delay_s'))
          s['sent'] += 1
          s['awaiting_ack'] = True
          progress = True
          if self.merge:
            del self.merge[pos]
          break
        elif sc.get('close') and not s['closed']:
          self._emit('CLSE', s['remote'], s['local'])
          s['closed'] = True
          progress = True
          if self.merge:
            del self.merge[pos]
          break
      else:
        # nothing released following merge order; if merge entries are all blocked, fall back to any ready stream
        if self.merge:
          ready = [i for i, s in enumerate(self.streams) if s['opened'] and not s['closed'] and not s['awaiting_ack'] and
                   not ((self.script[i] if i < len(self.script) else {}).get('echo') and not s.get('host_data')) and
                   (s['sent'] < len((self.script[i] if i < len(self.script) else {}).get('wrtes', [])) or
                    (self.script[i] if i < len(self.script) else {}).get('close'))]
          blocked_entries = [i for i in self.merge if i not in ready]
          if ready and len(blocked_entries) == len(self.merge):
            self.merge = []
            progress = True

  def _on_host_message(self, h, payload):
    self.log.append(('host', h, payload))
    cmd = h['cmd']
    if cmd == 'CNXN':
      if self.handshake is None:
        self._emit('CNXN', 0x01000000, self.maxdata, self.banner)
      return
    if cmd == 'AUTH':
      return
    if cmd == 'OPEN':
      idx = len(self.streams)
      sc = self.script[idx] if idx < len(self.script) else {'open': 'OKAY'}
      s = {'local': h['arg0'], 'remote': 100 + idx, 'idx': idx, 'sent': 0, 'awaiting_ack': False, 'opened': False, 'closed': False,
           'dest': payload}
      self.streams.append(s)
      self.by_local[h['arg0']] = s
      how = sc.get('open', 'OKAY')
      if how == 'OKAY':
        s['opened'] = True
        self._emit('OKAY', s['remote'], s['local'])
      elif how == 'CLSE':
        s['closed'] = True
        self._emit('CLSE', 0, s['local'])
      elif how == 'WRTE':
        self._emit('WRTE', s['remote'], s['local'], 'early')
      elif how == 'WRONGID':
        self._emit('OKAY', s['remote'], (s['local'] + 7) % 60000 + 1)
      self._pump()
      return
    s = self.by_local.get(h['arg0'])
    if cmd == 'OKAY':
      if s is not None:
        if not s['awaiting_ack']:
          self.violations.append('host sent OKAY for stream %s without an outstanding device WRTE' % h['arg0'])
        s['awaiting_ack'] = False
      self._pump()
    elif cmd == 'WRTE':
      if s is not None:
        if len(payload) > self.maxdata:
          self.violations.append('host WRTE of %d bytes exceeds maxdata %d' % (len(payload), self.maxdata))
        if s.get('host_wrte_unacked'):
          self.violations.append('host sent a second WRTE on stream %s before reading the OKAY of the previous one' % h['arg0'])
        s.setdefault('host_data', []).append(payload)
      if s is not None:
        s['host_wrte_unacked'] = True     # until the host has read our OKAY (never, if this stream does not acknowledge)
      if s is not None and (self.script[s['idx']] if s['idx'] < len(self.script) else {}).get('ack_host_writes', True):
        # a slow device: the acknowledgement becomes readable only ack_delay_s after the WRTE (waited for by the reader)
        delay = (self.script[s['idx']] if s['idx'] < len(self.script) else {}).get('ack_delay_s')
        self._emit('OKAY', s['remote'], s['local'], meta=['ack', s['local'], delay])
      self._pump()
    elif cmd == 'CLSE':
      if s is not None:
        s['closed'] = True

  # -- transport interface --------------------------------------------------------
  def write(self, data, timeout_ms=None):
    with self.cond:
      if isinstance(data, bytes) and len(data) == 24:
        if self._pending_header is not None:
          kind, ph = self._pending_header
          self._pending_header = None
          if kind == 'empty':   # the zero-length payload chunk of the previous message is optional
            self._on_host_message(ph, '')
          else:
            self.violations.append('a new header arrived while the payload of %r was outstanding' % (ph,))
        h = parse_header(data)
        if h['len'] == 0:
          self._pending_header = ('empty', h)
        else:
          self._pending_header = ('need', h)
        self.log.append(('chunk', 'header', h))
      else:
        kind, h = self._pending_header or ('none', None)
        self.log.append(('chunk', 'payload', data))
        if h is None:
          if data != '':
            self.violations.append('payload chunk %r without a preceding header' % (data[:20],))
        else:
          self._pending_header = None
          self._on_host_message(h, data)
        self.cond.notify_all()
        return len(data)
      self.cond.notify_all()
    return len(data)

  def read(self, length, timeout_ms=None):
    with self.cond:
      if self.handshake is not None and not self.out:
        # canned reply sequence mode (C15 handshake): next reply regardless of what the host wrote
        if self.handshake:
          cmd, a0, a1, payload = self.handshake.pop(0)
          if cmd == 'SILENCE':
            raise timeout_error()
          if cmd == 'SPAM':
            # from here on the device keeps sending unrelated packets (stale traffic of an earlier session), never pausing
            self.handshake.insert(0, (cmd, a0, a1, payload))
            self.spam_count = getattr(self, 'spam_count', 0) + 1
            time.sleep(0.002)
            cmd, a0, a1, payload = ('OKAY', 1, 2, '') if self.spam_count % 2 else ('WRTE', 1, 7, 'a:b:c')
          self._emit(cmd, a0, a1, payload)
      if not self.out:
        t = self.max_block_s if timeout_ms is None else min(self.max_block_s or 1e18, timeout_ms / 1000.0)
        self.cond.wait(t)   # t None = forever (virtual time mode)
        if not self.out:
          if timeout_ms is None:
            self.blocked_forever += 1
          raise timeout_error()
      if self.out_meta and self.out_meta[0] and self.out_meta[0][0] == 'ack' and len(self.out_meta[0]) > 2 and self.out_meta[0][2]:
        pending = self.out_meta[0]
        delay, pending[2] = pending[2], None
        budget = None if timeout_ms is None else timeout_ms / 1000.0
        if budget is not None and budget < delay:
          self.cond.wait(budget)      # the reader gives up before the acknowledgement arrives
          pending[2] = delay - budget
          raise timeout_error()
        self.cond.wait(delay)
      meta = self.out_meta.popleft() if self.out_meta else None
      if meta and meta[0] == 'ack' and meta[1] is not None:
        st = self.by_local.get(meta[1])
        if st is not None:
          st['host_wrte_unacked'] = False
      return self.out.popleft()

  def close(self):
    self.closed = True

  def __str__(self):
    return '<ScriptedAdbDevice>'


class FakeSigner(object):

  def __init__(self, k, log):
    self.k, self.log = k, log

  def sign(self, data):
    self.log.append(('sign', self.k, data))
    return 'S%d|%s' % (self.k, data)

  def get_public_key(self):
    self.log.append(('pubkey', self.k))
    return 'PUB%d' % self.k


class ScriptedBootloader(object):
  """Fastboot device: pops the next response packet per read; records written packets."""

  def __init__(self, responses):
    self.responses = collections.deque(responses)
    self.max_packets = 64
    self.packets = []
    self.reads = 0
    self.closed = False

  def read(self, length, timeout_ms=None):
    self.reads += 1
    if not self.responses:
      raise timeout_error()
    return self.responses.popleft()

  def write(self, data, timeout_ms=None):
    self.packets.append(data)
    if len(self.packets) > self.max_packets:
      raise RunawayError('host wrote more than %d packets' % self.max_packets)
    return len(data)

  def close(self):
    self.closed = True


class RunawayError(BaseException):
  """Raised by a fake when the code under test loops without bound (turned into a violation, not a hang)."""
