"""C17 - file output is atomic: exhaustive enumeration of exception-fault positions and process-kill points."""
import errno
import io
import json
import os
import pickle
import shutil
import sys
import tempfile

from hypothesis import strategies as st

from vf import hyp
from vf import ohtf
from vf.hyp import CaseResult

ID = 'C17'
LEVEL = 'fault_enumeration'
RULE = ('Case = a file-producing publisher: OutputToFile (default pickle serializer; generated chunked serializers yielding str '
        'chunks / bytes chunks / one str / one bytes), OutputToJSON with a filename pattern ({}-style, %-style, callable), or '
        'util.atomic_write(filesync in {F,T}), or MfgInspector.save_to_disk (module imported with inert stand-ins for google-auth / *_pb2); destination initially absent or holding a previous complete record.  For every '
        'case the fault-free run is checked (destination == b"".join(chunks), file name == pattern formatted with the record) and '
        'its file-system operations are counted; then EVERY exception-fault position (serializer raises after k chunks, k-th '
        'write raises ENOSPC, close raises, move/rename raises) and EVERY process-kill point (fork; os._exit(137) immediately before '
        'file-system operation k, k=0..N, no finally/flush) is enumerated.  Oracle: afterwards the destination is absent (only if '
        'it was absent), still the previous content, or the complete new serialization - never anything else; after exception '
        'faults no staged temp file is left.  Each (case, fault position) is one evaluation.  Non-trivial = the fault hits strictly '
        'after the first byte was staged; distinct by canonical (case, fault).  Plus: ONE OutputToJSON/OutputToFile instance called '
        'from 2-3 threads at once (a station sharing its callbacks between slots) under the deterministic scheduler, every schedule '
        'with <=1 (thorough: <=2) preemptions at line granularity; oracle = same file names and bytes as publishing the records one '
        'after the other through a fresh instance; non-trivial there = schedule with an effective preemption.')
ASSUMPTIONS = ['"Process kill" = os._exit in a forked child between Python-level file operations; page-cache/power loss is out of scope.',
               'The staging directory (tempfile.tempdir) is on the same file system as the destination (the statement\'s precondition).']

_REC = {}


def the_record():
  if 'r' not in _REC:
    htf = ohtf.reset_case()

    @htf.measures(htf.Measurement('m').in_range(0, 10))
    def ph(test):
      test.measurements.m = 5
      test.attach('a.txt', b'hello')
      test.dut_id = 'DUT1'

    t = htf.Test(ph, test_name='tn')
    got = []
    t.add_output_callbacks(got.append)
    t.execute()
    _REC['r'] = got[0]
  return _REC['r']


def fresh_record():
  htf = ohtf.reset_case()

  @htf.measures(htf.Measurement('m').in_range(0, 10))
  def ph(test):
    test.measurements.m = 5
    test.attach('a.txt', b'hello')
    test.dut_id = 'DUT1'

  t = htf.Test(ph, test_name='tn')
  got = []
  t.add_output_callbacks(got.append)
  t.execute()
  return got[0]


def simple_record():
  if 's' not in _REC:
    ohtf.load()
    from openhtf.core import test_record  # pylint: disable=g-import-not-at-top
    _REC['s'] = test_record.TestRecord(dut_id='DUT1', station_id='st', metadata={'test_name': 'tn'})
  return _REC['s']


class Boom(Exception):
  pass


class Fault(object):
  """Counts file-system operations; at operation `at` either raises (mode 'exc') or kills the process (mode 'kill')."""

  def __init__(self, mode=None, at=None, only=None):
    self.mode, self.at, self.only = mode, at, only
    self.n = 0
    self.log = []
    self.staged_bytes = 0

  def op(self, name):
    k = self.n
    self.n += 1
    self.log.append(name)
    if self.mode == 'kill' and k == self.at:
      os._exit(137)  # pylint: disable=protected-access
    if self.mode == 'exc' and k == self.at:
      raise OSError(errno.ENOSPC, 'injected fault at %s' % name)


class FileProxy(object):

  def __init__(self, f, fault):
    self._f, self._fault = f, fault
    self.name = f.name

  def write(self, data):
    self._fault.op('write')
    n = self._f.write(data)
    self._fault.staged_bytes += len(data)
    return n

  def flush(self):
    self._fault.op('flush')
    return self._f.flush()

  def fileno(self):
    return self._f.fileno()

  def close(self):
    self._fault.op('close')
    return self._f.close()

  def __enter__(self):
    return self

  def __exit__(self, *a):
    self.close()
    return False

  def __getattr__(self, k):
    return getattr(self._f, k)


def instrument(fault):
  """Patches the namespaces the publishers use. Returns an undo function."""
  from openhtf.output import callbacks  # pylint: disable=g-import-not-at-top
  from openhtf.util import atomic_write as aw  # pylint: disable=g-import-not-at-top
  real_ntf = tempfile.NamedTemporaryFile
  real_move, real_rename, real_open = shutil.move, os.rename, open

  class TempfileNS(object):
    def __getattr__(self, k):
      return getattr(tempfile, k)

    @staticmethod
    def NamedTemporaryFile(*a, **kw):  # pylint: disable=invalid-name
      fault.op('mktemp')
      return FileProxy(real_ntf(*a, **kw), fault)

  class ShutilNS(object):
    def __getattr__(self, k):
      return getattr(shutil, k)

    @staticmethod
    def move(src, dst):
      fault.op('move')
      return real_move(src, dst)

  class OsNS(object):
    def __getattr__(self, k):
      return getattr(os, k)

    @staticmethod
    def rename(src, dst):
      fault.op('rename')
      return real_rename(src, dst)

    @staticmethod
    def fsync(fd):
      fault.op('fsync')
      return os.fsync(fd)

  def open_proxy(name, mode='r', *a, **kw):
    f = real_open(name, mode, *a, **kw)
    if 'w' in mode:
      fault.op('open')
      return FileProxy(f, fault)
    return f

  saved = (callbacks.tempfile, callbacks.shutil, aw.tempfile, aw.os, getattr(aw, 'open', None))
  callbacks.tempfile = TempfileNS()
  callbacks.shutil = ShutilNS()
  aw.tempfile = TempfileNS()
  aw.os = OsNS()
  aw.open = open_proxy

  def undo():
    callbacks.tempfile, callbacks.shutil, aw.tempfile, aw.os = saved[:4]
    if saved[4] is None:
      del aw.open
    else:
      aw.open = saved[4]

  return undo


def chunk_bytes(chunks):
  return b''.join(c.encode() if isinstance(c, str) else c for c in chunks)


def dec_chunks(case):
  return [c[1].encode('latin-1') if c[0] == 'b' else c[1] for c in case['chunks']]


def expected_content(case):
  if case['kind'] == 'mfg':
    return chunk_bytes(dec_chunks(case))
  if case['kind'] == 'file':
    if case['serializer'] == 'pickle':
      return pickle.dumps(simple_record(), -1)
    return chunk_bytes(dec_chunks(case))
  if case['kind'] == 'atomic_write':
    return ''.join(c[1] for c in case['chunks']).encode()
  return None  # json: computed from the fault-free run


PATTERNS = [
    ('{dut_id}.{metadata[test_name]}.out', 'DUT1.tn.out'),
    ('%(dut_id)s.%(station_id)s.rec', None),
    ('callable', 'cb-DUT1-tn'),
    ('plain.out', 'plain.out'),
    # format specs and conversions are part of {}-formatting
    ('{dut_id}.{start_time_millis:013d}.rec', lambda rec: '%s.%013d.rec' % (rec.dut_id, rec.start_time_millis)),
    ('{dut_id!r}-{station_id:>6}.rec', lambda rec: '%r-%6s.rec' % (rec.dut_id, rec.station_id)),
    # a %-template whose only conversion is the escaped percent sign, and one that mixes it with a field
    ('yield_100%%.rec', 'yield_100%.rec'),
    ('%(dut_id)s_100%%.rec', 'DUT1_100%.rec'),
]


_MFG = {}


def load_mfg_inspector():
  """openhtf.output.callbacks.mfg_inspector needs google-auth and generated *_pb2 modules at import time (for its upload
  path only); they are not installed here, so inert stand-ins are registered first.  save_to_disk() uses none of them."""
  if 'mod' in _MFG:
    return _MFG['mod']
  import types  # pylint: disable=g-import-not-at-top

  class Dummy(object):
    def __init__(self, *a, **kw):
      pass

  class PayloadType(object):
    @staticmethod
    def values():
      return [0, 1]

    @staticmethod
    def Name(v):   # pylint: disable=invalid-name
      return str(v)

  def stub(name, **attrs):
    mod = types.ModuleType(name)
    mod.__dict__.update(attrs)
    sys.modules[name] = mod
    parent, _, child = name.rpartition('.')
    if parent and parent in sys.modules:
      setattr(sys.modules[parent], child, mod)
    return mod

  try:
    import google.auth  # pylint: disable=g-import-not-at-top,unused-import
  except ImportError:
    stub('google').__path__ = []
    stub('google.auth').__path__ = []
    stub('google.auth.credentials', Credentials=Dummy)
    stub('google.auth.transport').__path__ = []
    stub('google.auth.transport.requests', AuthorizedSession=Dummy)
    stub('google.oauth2').__path__ = []
    stub('google.oauth2.service_account', Credentials=Dummy)
  import openhtf.output.proto  # pylint: disable=g-import-not-at-top,unused-import
  for name, attrs in (('test_runs_pb2', dict(TestRun=Dummy)), ('mfg_event_pb2', dict(MfgEvent=Dummy)),
                      ('guzzle_pb2', dict(PayloadType=PayloadType, TestRunEnvelope=Dummy, COMPRESSED_TEST_RUN=0, COMPRESSED_MFG_EVENT=1)),
                      ('test_runs_converter', dict(test_run_from_test_record=None))):
    try:
      __import__('openhtf.output.proto.' + name)
    except Exception:  # pylint: disable=broad-except
      stub('openhtf.output.proto.' + name, **attrs)
  from openhtf.output.callbacks import mfg_inspector  # pylint: disable=g-import-not-at-top
  _MFG['mod'] = mfg_inspector
  return mfg_inspector


class FakeProto(object):
  def __init__(self, payload):
    self.payload = payload

  def SerializeToString(self):   # pylint: disable=invalid-name
    return self.payload


def publish(case, destdir, fault_serializer_at=None):
  """Runs the publisher once (faults come from the instrumented namespaces / the serializer)."""
  from openhtf.output import callbacks  # pylint: disable=g-import-not-at-top
  from openhtf.output.callbacks import json_factory  # pylint: disable=g-import-not-at-top
  from openhtf.util import atomic_write as aw  # pylint: disable=g-import-not-at-top
  pat, _ = PATTERNS[case['pattern']]
  if pat == 'callable':
    pattern = lambda **kw: os.path.join(destdir, 'cb-%s-%s' % (kw['dut_id'], kw['metadata']['test_name']))
  else:
    pattern = os.path.join(destdir, pat)
  if case['kind'] == 'atomic_write':
    chunks = [c[1] for c in case['chunks']]
    with aw.atomic_write(os.path.join(destdir, 'aw.out'), filesync=case['filesync']) as f:
      for i, c in enumerate(chunks):
        if fault_serializer_at is not None and i == fault_serializer_at:
          raise Boom('producer fails after %d chunks' % i)
        f.write(c)
      if fault_serializer_at is not None and fault_serializer_at >= len(chunks):
        raise Boom('producer fails after all chunks')
    return
  if case['kind'] == 'mfg':
    # MfgInspector.save_to_disk(): the record converted to a proto and written through OutputToFile.open_output_file
    mi = load_mfg_inspector()
    payload = chunk_bytes(dec_chunks(case))

    def converter(test_rec):
      if fault_serializer_at is not None:
        raise Boom('converter fails')
      return FakeProto(payload)

    mi.MfgInspector().set_converter(converter).save_to_disk(pattern)(simple_record())
    return
  if case['kind'] == 'json':
    rec = the_record()
    cb = json_factory.OutputToJSON(pattern, indent=case.get('indent'))
    if fault_serializer_at == 'real-closed-attachment':
      # no injected fault either: CloseAttachments ran before this callback (the order in which a station registered its
      # callbacks), so the encoder fails when it reaches the inlined attachment, after most of the record was produced
      rec = fresh_record()
      callbacks.CloseAttachments()(rec)
    elif fault_serializer_at in ('real-nan', 'real-set'):
      # no injected fault: the genuine JSON encoder meets a value it cannot encode (configuration values reach the record as
      # they are) after it has produced most of the record
      import copy as _copy  # pylint: disable=g-import-not-at-top
      rec = _copy.copy(rec)
      rec.metadata = dict(rec.metadata, config=dict(rec.metadata.get('config') or {}, zz_calibration_offset=(
          float('nan') if fault_serializer_at == 'real-nan' else {1, 2})))
      rec._cached_config_from_metadata = rec.metadata['config']  # pylint: disable=protected-access
    elif fault_serializer_at is not None:
      orig = cb.serialize_test_record

      def ser(test_rec):
        for i, c in enumerate(orig(test_rec)):
          if i == fault_serializer_at:
            raise Boom('serializer fails after %d chunks' % i)
          yield c
      cb.serialize_test_record = ser
    cb(rec)
    return
  rec = simple_record()
  if case['serializer'] == 'pickle':
    cb = callbacks.OutputToFile(pattern)
    if fault_serializer_at is not None:
      def ser(test_rec):
        raise Boom('serializer fails')
      cb.serialize_test_record = ser
  else:
    chunks = dec_chunks(case)
    single = case.get('single')

    class Out(callbacks.OutputToFile):
      @staticmethod
      def serialize_test_record(test_rec):
        if single:
          if fault_serializer_at is not None:
            raise Boom('serializer fails')
          return chunks[0] if chunks else ''

        def gen():
          for i, c in enumerate(chunks):
            if fault_serializer_at is not None and i == fault_serializer_at:
              raise Boom('serializer fails after %d chunks' % i)
            yield c
          if fault_serializer_at is not None and fault_serializer_at >= len(chunks):
            raise Boom('serializer fails at the end')
        return gen()

    cb = Out(pattern)
  cb(rec)


def dest_name(case):
  if case['kind'] == 'atomic_write':
    return 'aw.out'
  pat, exp = PATTERNS[case['pattern']]
  if callable(exp):
    exp = exp(the_record() if case['kind'] == 'json' else simple_record())
  if exp is None:
    rec = the_record() if case['kind'] == 'json' else simple_record()
    exp = '%s.%s.rec' % (rec.dut_id, rec.station_id)
  if case['kind'] == 'mfg' and PATTERNS[case['pattern']][0] == 'callable':
    exp = 'cb-DUT1-tn'
  return exp


class Sandbox(object):

  def __init__(self):
    self.root = tempfile.mkdtemp(prefix='vfc17.', dir=os.environ.get('VERIF_SCRATCH') or None)
    self.dest = os.path.join(self.root, 'dest')
    self.stage = os.path.join(self.root, 'stage')
    os.mkdir(self.dest)
    os.mkdir(self.stage)
    self.saved_tempdir = tempfile.tempdir
    tempfile.tempdir = self.stage

  def reset(self, prev, name):
    for d in (self.dest, self.stage):
      for f in os.listdir(d):
        os.remove(os.path.join(d, f))
    if prev is not None:
      with open(os.path.join(self.dest, name), 'wb') as f:
        f.write(prev)

  def state(self, name):
    files = sorted(os.listdir(self.dest))
    content = None
    p = os.path.join(self.dest, name)
    if os.path.exists(p):
      with open(p, 'rb') as f:
        content = f.read()
    return files, content, sorted(os.listdir(self.stage))

  def close(self):
    tempfile.tempdir = self.saved_tempdir
    shutil.rmtree(self.root, ignore_errors=True)


def check(case, acct=None, known=()):
  """Enumerates every fault position of the case. Returns CaseResult (violations aggregated)."""
  r = CaseResult()
  ohtf.load()
  the_record()     # created before the sandbox redirects tempfile.tempdir (attachments live in temp files)
  simple_record()
  sb = Sandbox()
  n_eval = 0
  nontrivial_positions = 0
  try:
    name = dest_name(case)
    prev = case['prev'].encode('latin-1') if case['prev'] is not None else None
    # ---- fault-free run
    sb.reset(prev, name)
    fault = Fault()
    undo = instrument(fault)
    err = None
    try:
      publish(case, sb.dest)
    except Exception as e:  # pylint: disable=broad-except
      err = e
    finally:
      undo()
    files, content, staged = sb.state(name)
    expected = expected_content(case)
    n_eval += 1
    if err is not None:
      r.bad('C17/success-path-raised/%s/%s' % (case['kind'] + ('-' + case['serializer'] if case['kind'] == 'file' else ''), type(err).__name__),
            'fault-free publish raised %r; destination files %r content %r' % (err, files, content if content is None else content[:40]))
      if content is not None and content != prev:
        r.bad('C17/truncated-after-error', 'after the failed publish the destination holds %d bytes (previous: %r)' % (len(content), prev))
      return finish(r, case, n_eval, nontrivial_positions)
    if case['kind'] == 'json':
      expected = content
      try:
        json.loads(content.decode('utf-8'))
      except Exception as e:  # pylint: disable=broad-except
        r.bad('C17/json-not-parseable', repr(e))
    if files != [name]:
      r.bad('C17/wrong-file-name', 'destination dir has %r, expected [%r]' % (files, name))
    elif content != expected:
      r.bad('C17/wrong-content', 'destination holds %r..., expected %r...' % (content[:40], expected[:40]))
    if staged:
      r.bad('C17/temp-left-behind', 'staging dir still has %r after success' % (staged,))
    if content is None:
      return finish(r, case, n_eval, nontrivial_positions)     # published under another name: nothing further to enumerate
    n_ops = fault.n
    oplog = list(fault.log)
    allowed = {None: 'absent'} if prev is None else {}
    # ---- helper to judge the destination after a fault
    def judge(tag, position, staged_before, must_be_clean):
      files, content, staged = sb.state(name)
      others = [f for f in files if f != name]
      verdict = None
      if others:
        verdict = ('C17/stray-file-at-destination/%s' % tag, 'destination dir has unexpected files %r' % (others,))
      elif content is None:
        if prev is not None:
          verdict = ('C17/destination-lost/%s' % tag, 'the previous complete record disappeared')
      elif content != prev and content != expected:
        what = 'empty' if not content else 'truncated' if expected.startswith(content) else 'garbled'
        how = 'after-kill' if tag.startswith('killed') else 'after-exception'
        verdict = ('C17/partial-record-published/%s' % how, '%s: destination holds %d of %d bytes (%r...), previous=%r' % (
            what, len(content), len(expected), content[:30], None if prev is None else prev[:30]))
      if verdict is None and must_be_clean and staged:
        verdict = ('C17/temp-left-behind/%s' % tag, 'staging dir still has %r after the exception' % (staged,))
      case_j = {'case': case, 'fault': [tag, position]}
      if acct is not None:
        acct.case(case_j, staged_before, ['fault:' + tag, 'kind:' + case['kind']])
      if verdict is not None:
        r.bad(verdict[0], '[%s at %r; ops %r] %s' % (tag, position, oplog[:3] + ['...x%d' % len(oplog)] + oplog[-3:] if len(oplog) > 8 else oplog, verdict[1]))
      return staged_before

    # ---- serializer / producer exception after k chunks
    nchunks = len(case['chunks']) if case['kind'] != 'json' else min(6, content.count(b',') + 1)
    ks = list(range(0, nchunks + 1)) if not (case['kind'] == 'file' and (case['serializer'] == 'pickle' or case.get('single'))) else [0]
    if case['kind'] == 'json':
      ks += ['real-nan', 'real-set', 'real-closed-attachment']
    for k in ks:
      sb.reset(prev, name)
      fault = Fault()
      undo = instrument(fault)
      try:
        publish(case, sb.dest, fault_serializer_at=k)
        raised = False
      except Boom:
        raised = True
      except Exception as e:  # pylint: disable=broad-except
        raised = True
      finally:
        undo()
      n_eval += 1
      if judge('serializer-raises', k, fault.staged_bytes > 0, True):
        nontrivial_positions += 1
    # ---- k-th file operation raises
    for k in range(n_ops):
      sb.reset(prev, name)
      fault = Fault('exc', k)
      undo = instrument(fault)
      try:
        publish(case, sb.dest)
      except Exception:  # pylint: disable=broad-except
        pass
      finally:
        undo()
      n_eval += 1
      if judge('op-raises:' + oplog[k], k, fault.staged_bytes > 0, False):
        nontrivial_positions += 1
    # ---- process killed immediately before operation k (k == n_ops: after the last one)
    for k in range(n_ops + 1):
      sb.reset(prev, name)
      pid = os.fork()
      if pid == 0:
        try:
          fault = Fault('kill', k)
          instrument(fault)
          publish(case, sb.dest)
        finally:
          os._exit(0)  # pylint: disable=protected-access
      os.waitpid(pid, 0)
      n_eval += 1
      staged_before = k >= 2 and any(o == 'write' for o in oplog[:k])
      if judge('killed-before:' + (oplog[k] if k < n_ops else 'end'), k, staged_before, False):
        nontrivial_positions += 1
    # ---- process killed at the k-th executed source line of the publishing code (openhtf's callbacks / atomic_write and
    # the stdlib modules they publish through), i.e. also *inside* shutil / tempfile helpers, whatever they are
    if case.get('linekill'):
      n_lines = _line_kill_child(case, sb.dest, None)
      for k in range(n_lines):
        sb.reset(prev, name)
        _line_kill_child(case, sb.dest, k)
        n_eval += 1
        if judge('killed-at-line', k, k > 0, False):
          nontrivial_positions += 1
      if acct is not None:
        acct.extra['line_kill_points'] += n_lines
  finally:
    sb.close()
  return finish(r, case, n_eval, nontrivial_positions)


KILL_FILES = ('/shutil.py', '/tempfile.py', '/output/callbacks/__init__.py', '/util/atomic_write.py', '/callbacks/json_factory.py', '/callbacks/mfg_inspector.py')


def _line_kill_child(case, destdir, k):
  """Forks; the child publishes and os._exit()s when it is about to execute its k-th line in KILL_FILES (k=None: counts)."""
  rd, wr = os.pipe()
  pid = os.fork()
  if pid == 0:
    count = [0]
    try:
      os.close(rd)

      def local(frame, event, arg):
        if event == 'line':
          if k is not None and count[0] == k:
            os._exit(137)  # pylint: disable=protected-access
          count[0] += 1
        return local

      def tracer(frame, event, arg):
        return local if frame.f_code.co_filename.endswith(KILL_FILES) else None

      sys.settrace(tracer)
      try:
        publish(case, destdir)
      except BaseException:  # pylint: disable=broad-except
        pass
      sys.settrace(None)
      os.write(wr, str(count[0]).encode())
    finally:
      os._exit(0)  # pylint: disable=protected-access
  os.close(wr)
  data = os.read(rd, 64)
  os.close(rd)
  os.waitpid(pid, 0)
  return int(data) if data else 0


LINEKILL_CASES = [
    {'kind': 'json', 'prev': 'OLD COMPLETE RECORD', 'pattern': 0, 'chunks': [], 'serializer': None, 'indent': None},
    {'kind': 'json', 'prev': None, 'pattern': 2, 'chunks': [], 'serializer': None, 'indent': 2},
    {'kind': 'file', 'prev': 'OLD COMPLETE RECORD', 'pattern': 1, 'chunks': [], 'serializer': 'pickle'},
    {'kind': 'file', 'prev': 'x', 'pattern': 3, 'chunks': [['s', 'abc'], ['b', 'def'], ['s', 'ghi']], 'serializer': 'chunks', 'single': False},
    {'kind': 'file', 'prev': None, 'pattern': 0, 'chunks': [['s', 'abc'], ['s', 'def']], 'serializer': 'chunks', 'single': False},
    {'kind': 'atomic_write', 'prev': 'OLD COMPLETE RECORD', 'pattern': 0, 'chunks': [['s', 'abc'], ['s', 'def']], 'serializer': None, 'filesync': False},
    {'kind': 'atomic_write', 'prev': 'OLD COMPLETE RECORD', 'pattern': 0, 'chunks': [['s', 'abc'], ['s', 'def']], 'serializer': None, 'filesync': True},
    {'kind': 'atomic_write', 'prev': None, 'pattern': 0, 'chunks': [['s', 'abc']], 'serializer': None, 'filesync': True},
    {'kind': 'mfg', 'prev': 'OLD COMPLETE RECORD', 'pattern': 0, 'chunks': [['b', 'protobuf bytes']], 'serializer': None},
]


# ------------------------------------------------------------------ one callback instance shared by concurrent runs
SHARED_KINDS = ['json', 'file', 'json-callable']
DUTS = ['DUT_A', 'DUT_B', 'DUT_C']


def check_shared(case):
  """A station registers ONE callback instance with the tests of all its slots, so several threads call it at once.

  case = {'shared': kind, 'n': 2|3, 'plan': {yield index: thread choice}}.  Oracle = differential against the same records
  published one after the other through a fresh instance: same file names, same bytes.
  """
  from vf import vmode  # pylint: disable=g-import-not-at-top
  from vf import vsched as V  # pylint: disable=g-import-not-at-top
  import threading as real_threading  # pylint: disable=g-import-not-at-top
  r = CaseResult()
  vmode.setup()
  from openhtf.core import test_record  # pylint: disable=g-import-not-at-top
  from openhtf.output import callbacks  # pylint: disable=g-import-not-at-top
  from openhtf.output.callbacks import json_factory  # pylint: disable=g-import-not-at-top
  from openhtf.util import atomic_write as aw  # pylint: disable=g-import-not-at-top
  V.monitor_lines(V.code_objects_of(callbacks.OutputToFile, json_factory.OutputToJSON, aw.atomic_write))
  recs = [test_record.TestRecord(dut_id=d, station_id='st', metadata={'test_name': 'tn'}) for d in DUTS[:case['n']]]
  plan = {int(k): v for k, v in (case.get('plan') or {}).items()}

  def make(destdir):
    if case['shared'] == 'json':
      return json_factory.OutputToJSON(os.path.join(destdir, '{dut_id}.json'))
    if case['shared'] == 'json-callable':
      return json_factory.OutputToJSON(lambda **kw: os.path.join(destdir, 'cb-%s.json' % kw['dut_id']))
    return callbacks.OutputToFile(os.path.join(destdir, '%(dut_id)s.%(station_id)s.rec'))

  sb = Sandbox()
  try:
    refdir = os.path.join(sb.root, 'ref')
    os.mkdir(refdir)
    for rec in recs:
      make(refdir)(rec)
    want = {}
    for f in sorted(os.listdir(refdir)):
      with open(os.path.join(refdir, f), 'rb') as fh:
        want[f] = fh.read()

    def fn(s):
      cb = make(sb.dest)
      errs = []

      def run(rec):
        try:
          cb(rec)
        except Exception as e:  # pylint: disable=broad-except
          errs.append(repr(e))

      ths = []
      for i, rec in enumerate(recs):
        t = real_threading.Thread(target=run, args=(rec,), name='slot%d' % i)
        t.daemon = True
        t.start()
        ths.append(t)
      for t in ths:
        t.join()
      return errs

    s = V.Scheduler(plan=plan, time_limit=1e4, max_steps=50000)
    errs, exc = s.run(lambda: fn(s), watchdog_s=15.0)
    if s.failure is not None:
      if s.failure[0] in ('deadlock', 'steplimit'):
        r.bad('C17/shared/hang', s.failure[1][:300])
        return r, s
      raise RuntimeError('scheduler failure %r' % (s.failure,))
    if exc is not None:
      raise exc
    got = {}
    for f in sorted(os.listdir(sb.dest)):
      with open(os.path.join(sb.dest, f), 'rb') as fh:
        got[f] = fh.read()
    if errs:
      r.bad('C17/shared/callback-raised', '%s plan=%r: %s' % (case['shared'], case.get('plan'), errs[0]))
    elif sorted(got) != sorted(want):
      r.bad('C17/shared/file-names', '%s plan=%r: every callback succeeded; files %r, expected %r' % (case['shared'], case.get('plan'), sorted(got), sorted(want)))
    else:
      for f in want:
        if got[f] != want[f]:
          r.bad('C17/shared/content', '%s plan=%r: %s holds %r..., expected %r...' % (case['shared'], case.get('plan'), f, got[f][:60], want[f][:60]))
          break
    if os.listdir(sb.stage):
      r.bad('C17/shared/staged-file-left', repr(os.listdir(sb.stage)))
    r.nontrivial = bool(s.effective_preemptions)
    r.classes = ['shared:' + case['shared'], 'slots:%d' % case['n'], 'preemptions:%d' % min(len(s.effective_preemptions), 3)]
    return r, s
  finally:
    sb.close()


def finish(r, case, n_eval, nontrivial_positions):
  r.nontrivial = nontrivial_positions > 0
  r.classes = ['kind:' + case['kind'], 'prev:%s' % (case['prev'] is not None), 'positions:%d' % (n_eval // 5 * 5)]
  return r


# ------------------------------------------------------------------ generators
TEXT = st.text(alphabet=[chr(i) for i in range(32, 256)], min_size=0, max_size=12)


@st.composite
def cases(draw):
  kind = draw(st.sampled_from(['file', 'file', 'file', 'json', 'atomic_write', 'mfg']))
  case = {'kind': kind, 'prev': draw(st.one_of(st.none(), st.sampled_from(['OLD COMPLETE RECORD', 'x']))),
          'pattern': draw(st.integers(0, len(PATTERNS) - 1)), 'chunks': [], 'serializer': None}
  if kind == 'file':
    case['serializer'] = draw(st.sampled_from(['pickle', 'chunks', 'chunks', 'chunks']))
    if case['serializer'] == 'chunks':
      t = draw(st.sampled_from(['s', 'b', 'mixed']))
      n = draw(st.integers(0, 5))
      case['chunks'] = [[('s' if (t == 's' or (t == 'mixed' and draw(st.booleans()))) else 'b'), draw(TEXT)] for _ in range(n)]
      case['single'] = draw(st.integers(0, 3)) == 0
      if case['single']:
        case['chunks'] = case['chunks'][:1] or [['s', 'only']]
  elif kind == 'mfg':
    case['chunks'] = [['b', draw(TEXT)] for _ in range(draw(st.integers(1, 3)))]
  elif kind == 'atomic_write':
    case['chunks'] = [['s', draw(TEXT)] for _ in range(draw(st.integers(0, 5)))]
    case['filesync'] = draw(st.booleans())
  else:
    case['indent'] = draw(st.sampled_from([None, 2]))
  return case


def plan(tier, seed):
  n = 12 if tier == 'quick' else 250
  jobs = [{'kind': 'hyp', 'name': 'hyp%d' % i, 'hseed': seed * 1000 + i, 'n': n} for i in range(16)]
  for i in range(len(LINEKILL_CASES)):
    jobs.append({'kind': 'linekill', 'name': 'linekill%d' % i, 'case': i})
  for kind in SHARED_KINDS:
    for nslots, bound in ((2, 1), (3, 1)) if tier == 'quick' else ((2, 2), (3, 1)):
      nsh = 1 if bound == 1 else 8
      for sh in range(nsh):
        jobs.append({'kind': 'shared', 'name': 'shared.%s.%d.%d' % (kind, nslots, sh), 'shared': kind, 'n': nslots, 'bound': bound, 'shard': sh, 'nshards': nsh})
  return jobs


def run_job(job, acct):
  known = set(job.get('known', ()))
  if job['kind'] == '_regress':
    from vf import runner  # pylint: disable=g-import-not-at-top
    runner.run_regress(sys.modules[__name__], job, acct)
    return
  if job['kind'] == 'linekill':
    r = check(dict(LINEKILL_CASES[job['case']], linekill=1), acct=acct, known=known)
    for sig, detail in r.violations:
      (acct.known if sig in known else acct.violation)(sig, {'case': dict(LINEKILL_CASES[job['case']], linekill=1), 'fault': ['linekill', 0]}, detail)
    return
  if job['kind'] == 'shared':
    import itertools  # pylint: disable=g-import-not-at-top
    base = {'shared': job['shared'], 'n': job['n'], 'plan': {}}
    r0, s0 = check_shared(base)
    npts = s0.k + 2
    i = 0
    for b in range(0, job['bound'] + 1):
      for ks in itertools.combinations(range(npts), b):
        for cs in itertools.product(range(job['n']), repeat=b):
          i += 1
          if i % job['nshards'] != job['shard']:
            continue
          case = dict(base, plan={str(k): c for k, c in zip(ks, cs)})
          r, _ = check_shared(case)
          acct.case(case, r.nontrivial, r.classes)
          for sig, detail in r.violations:
            (acct.known if sig in known else acct.violation)(sig, case, detail)
    if job['shard'] == 0:
      acct.exhaustive_parts.append('shared %s callback, %d slots: all schedules with <=%d preemptions over %d yield points' % (job['shared'], job['n'], job['bound'], npts))
    return
  # each (case, fault position) is recorded by check() itself; the per-case entry of hyp.search is kept as class info
  inner = type(acct)()

  def chk(case):
    return check(case, acct=acct, known=known)

  hyp.search(inner, cases(), chk, seed=job['hseed'], max_examples=job['n'], known=known)
  acct.violations.update(inner.violations)
  acct.known_hits.update(inner.known_hits)
  acct.excluded_known += inner.excluded_known
  acct.extra['generated_cases'] += inner.evaluations
  for c, n in inner.classes.items():
    acct.classes['case-' + c] += n


def replay(case):
  if 'shared' in case:
    return check_shared(case)[0].violations
  if 'case' in case and 'fault' in case:
    case = case['case']
  return check(case).violations
