"""C14 - ADB streams: per-stream in-order exactly-once delivery, acks, flow control, no deadlock / lost wake-up."""
import sys
import threading as real_threading

from hypothesis import strategies as st

from vf import fakes_usb as fk
from vf import hyp
from vf import vmode
from vf import vsched as V
from vf.hyp import CaseResult

ID = 'C14'
LEVEL = 'exploration'
ENGINE = 'vsched'
RULE = ('Case = 1-3 open streams; per stream a device script (k WRTEs of 1-6 bytes, optional CLSE at the end), a generated merge '
        'order of the streams\' messages, maxdata in {4, 16}; host: one reader thread per stream (read length 0 or n, timeout None or '
        '2 s) and optionally a writer thread on the same stream writing 1..3*maxdata bytes; the device acknowledges host WRTEs and '
        'obeys flow control like adbd.  Everything runs under the deterministic scheduler with line-level yield points in '
        'AdbStreamTransport / AdbConnection / AdbTransportAdapter; schedules = default + every single preemption of small cases '
        '(sweeps) + drawn plans (<=4 preemptions) + seeded random-priority.  Oracle = per-stream byte queues: bytes returned per '
        'stream == concatenation of that stream\'s device payloads in order; exactly one host OKAY(local, remote) per device WRTE; '
        'host WRTE chunks <= maxdata concatenating to the written data and never a second WRTE before the previous OKAY was read; '
        'every call with a timeout returns within it (+ polling slack); calls without timeout: the scheduler proves termination - '
        'a thread left waiting although its data was delivered (lost wake-up) or a wait-for cycle is reported with the thread '
        'states.  Non-trivial = >=2 streams with interleaved WRTEs, or reader+writer on one stream, with >=1 effective preemption; '
        'distinct by (case, plan).  Plus an enumerated part: the device never acknowledges a WRTE; write() gives up by its timeout and '
        'no further WRTE goes out on that stream, other streams unaffected.')
ASSUMPTIONS = ['The USB transport is a scripted fake; payloads are latin-1 str.',
               'Preemption at source-line / primitive granularity only.']


def _spawn(fn, name):
  t = real_threading.Thread(target=fn, name=name)
  t.daemon = True
  t.start()
  return t


def stream_case(case):
  def fn(s):
    m = fk.load()
    ap = m.adb_protocol
    ap.STREAM_ID_LIMIT = 2 ** 16
    script = [{'open': 'OKAY', 'wrtes': list(st_['wrtes']), 'close': bool(st_['close']), 'echo': bool(st_.get('echo')),
               'ack_delay_s': st_.get('ack_delay_s'), 'payload_delay_s': st_.get('payload_delay_s')} for st_ in case['streams']]
    ap.ADB_MESSAGE_LOG = bool(case.get('msglog'))      # --adb_message_log: connect() wraps the transport in the logging adapter
    dev = fk.ScriptedAdbDevice(script, merge=list(case['merge']), maxdata=case['maxdata'], cond_factory=lambda: V.VCondition(sched=s),
                               max_block_s=None)
    try:
      conn = ap.AdbConnection.connect(dev, timeout_ms=5000)
    finally:
      ap.ADB_MESSAGE_LOG = False
    streams = [conn.open_stream('svc%d:' % i, timeout_ms=5000) for i in range(len(script))]
    out = {'reads': {}, 'calls': [], 'errors': []}

    def reader(i):
      sc = case['streams'][i]
      want = sum(len(w) for w in sc['wrtes'])
      got = ''
      retries = [0]
      while len(got) < want:
        n = sc['read_len']
        n = min(n, want - len(got)) if n else 0
        t0 = s.now
        try:
          data = streams[i].read(length=n, timeout_ms=sc['read_timeout_ms'])
        except Exception as e:  # pylint: disable=broad-except
          if case.get('retry_timeouts') and type(e).__name__ in ('AdbTimeoutError', 'UsbReadFailedError') and retries[0] < 6:
            retries[0] += 1      # a read may time out (the thread was descheduled past its deadline); nothing may be lost by that
            continue
          out['calls'].append(('read', i, s.now - t0, sc['read_timeout_ms'], type(e).__name__))
          out['errors'].append(('read', i, type(e).__name__, str(e)[:80], len(got), want))
          break
        out['calls'].append(('read', i, s.now - t0, sc['read_timeout_ms'], 'ok'))
        got += data
      out['reads'][i] = got

    def writer(i, second=False):
      sc = case['streams'][i]
      data = ''.join(chr((97 if second else 65) + (j % 26)) for j in range(sc['write2_len'] if second else sc['write_len']))
      t0 = s.now
      try:
        streams[i].write(data, timeout_ms=sc['write_timeout_ms'])
        out['calls'].append(('write', i, s.now - t0, sc['write_timeout_ms'], 'ok'))
      except Exception as e:  # pylint: disable=broad-except
        out['calls'].append(('write', i, s.now - t0, sc['write_timeout_ms'], type(e).__name__))
        out['errors'].append(('write', i, type(e).__name__, str(e)[:80], 0, 0))

    ths = []
    for i, sc in enumerate(case['streams']):
      if streams[i] is None:
        out['errors'].append(('open', i, 'None', '', 0, 0))
        continue
      if sc['wrtes']:
        ths.append(_spawn(lambda i=i: reader(i), 'reader%d' % i))
      if sc['write_len']:
        ths.append(_spawn(lambda i=i: writer(i), 'writer%d' % i))
      if sc.get('write2_len'):
        ths.append(_spawn(lambda i=i: writer(i, True), 'writer%db' % i))
    for t in ths:
      t.join()
    out['dev_log'] = list(dev.log)
    out['dev_violations'] = list(dev.violations)
    out['streams'] = [(st_['local'], st_['remote'], st_.get('host_data', [])) for st_ in dev.streams]
    return out

  return fn


def check_unacked(case):
  """case = {'unacked': 1, 'maxdata': n, 'len1': n, 'len2': n, 'other_stream': bool, 'plan': {...}}

  The device never acknowledges the WRTE of stream 0: write() must give up by its timeout, and because ADB OKAYs do not say
  which WRTE they acknowledge, no further WRTE may go out on that stream ("never more than one unacknowledged WRTE").
  """
  r = CaseResult()
  vmode.setup(usb=True)
  vmode.quiet_logging()
  plan = {int(k): v for k, v in (case.get('plan') or {}).items()}

  def fn(s):
    m = fk.load()
    ap = m.adb_protocol
    script = [{'open': 'OKAY', 'wrtes': [], 'close': False, 'ack_host_writes': False}]
    if case.get('other_stream'):
      script.append({'open': 'OKAY', 'wrtes': ['xy'], 'close': False})
    dev = fk.ScriptedAdbDevice(script, merge=[1] if case.get('other_stream') else [], maxdata=case['maxdata'],
                               cond_factory=lambda: V.VCondition(sched=s), max_block_s=None)
    conn = ap.AdbConnection.connect(dev, timeout_ms=5000)
    streams = [conn.open_stream('svc%d:' % i, timeout_ms=5000) for i in range(len(script))]
    calls = []
    for n, tmo in ((case['len1'], 1000), (case['len2'], 1000)):
      t0 = s.now
      try:
        streams[0].write('w' * n, timeout_ms=tmo)
        calls.append(('ok', s.now - t0))
      except Exception as e:  # pylint: disable=broad-except
        calls.append((type(e).__name__, s.now - t0))
    other = None
    if case.get('other_stream'):
      try:
        other = streams[1].read(timeout_ms=1000)
      except Exception as e:  # pylint: disable=broad-except
        other = 'raised ' + type(e).__name__
    wrtes = [x[2] for x in dev.log if x[0] == 'host' and x[1]['cmd'] == 'WRTE']
    return {'calls': calls, 'violations': list(dev.violations), 'wrtes': wrtes, 'other': other}

  s = V.Scheduler(plan=plan, time_limit=600.0, max_steps=250000)
  res, exc = s.run(lambda: fn(s), watchdog_s=30.0)
  desc = 'case=%r' % ({k: v for k, v in case.items()},)
  r.nontrivial = True
  r.classes = ['unacked-wrte', 'maxdata:%d' % case['maxdata']]
  if s.failure is not None:
    if s.failure[0] in ('deadlock', 'steplimit'):
      r.bad('C14/unacked/no-progress', '%s; %s' % (s.failure[1][:400], desc))
      return r, s
    raise RuntimeError('scheduler failure: %r' % (s.failure,))
  if exc is not None:
    r.bad('C14/unacked/raised/%s' % type(exc).__name__, '%r %s' % (exc, desc))
    return r, s
  (how1, dur1), (how2, dur2) = res['calls']
  if how1 == 'ok':
    r.bad('C14/unacked/write-returned-without-OKAY', 'the device never acknowledged the WRTE but write() returned; %s' % desc)
  if dur1 > 1.2 or dur2 > 1.2:
    r.bad('C14/timeout-exceeded', 'write() took %.2fs / %.2fs with a 1 s timeout; %s' % (dur1, dur2, desc))
  for v in res['violations']:
    kind = 'second-WRTE-before-OKAY' if 'second WRTE' in v else 'chunk-exceeds-maxdata' if 'maxdata' in v else 'other'
    r.bad('C14/flow-control/%s' % kind, '%s; host WRTEs %r, calls %r; %s' % (v, res['wrtes'], res['calls'], desc))
  if case.get('other_stream') and res['other'] != 'xy':
    r.bad('C14/unacked/other-stream-disturbed', 'stream 1 read %r, expected %r; %s' % (res['other'], 'xy', desc))
  return r, s


def check(case):
  r = CaseResult()
  vmode.setup(usb=True)
  vmode.quiet_logging()
  plan = {int(k): v for k, v in (case.get('plan') or {}).items()}
  rp = tuple(case['random']) if case.get('random') else None
  s = V.Scheduler(plan=plan, random_policy=rp, time_limit=600.0, max_steps=250000, trace=bool(case.get('trace')))
  fn = stream_case(case)
  res, exc = s.run(lambda: fn(s), watchdog_s=30.0)
  n_streams = len(case['streams'])
  same_stream_rw = any((sc['wrtes'] and sc['write_len']) or sc.get('write2_len') for sc in case['streams'])
  interleaved = n_streams >= 2 and len(set(case['merge'])) >= 2
  r.nontrivial = (same_stream_rw or interleaved) and bool(s.effective_preemptions)
  r.classes = ['streams:%d' % n_streams, 'maxdata:%d' % case['maxdata'], 'preemptions:%d' % min(len(s.effective_preemptions), 4)] + (
      ['reader+writer'] if same_stream_rw else []) + (['interleaved'] if interleaved else [])
  desc = 'case=%r plan=%r' % ({k: v for k, v in case.items() if k not in ('plan', 'random')}, case.get('plan') or case.get('random'))
  if s.failure is not None:
    if s.failure[0] == 'deadlock':
      kind = 'time-limit' if 'time limit' in s.failure[1] else 'blocked-forever'
      r.bad('C14/no-progress/%s' % kind, '%s: %s' % (s.failure[1][:700], desc))
      return r, s
    if s.failure[0] == 'steplimit':
      r.bad('C14/no-progress/livelock', '%s: %s' % (s.failure[1][:500], desc))
      return r, s
    raise RuntimeError('scheduler failure: %r' % (s.failure,))
  if exc is not None:
    r.bad('C14/raised/%s' % type(exc).__name__, '%r %s' % (exc, desc))
    return r, s
  # data integrity per stream
  for i, sc in enumerate(case['streams']):
    want = ''.join(sc['wrtes'])
    if not sc['wrtes']:
      continue
    got = res['reads'].get(i)
    errs = [e for e in res['errors'] if e[1] == i and e[0] == 'read']
    if errs:
      e = errs[0]
      if e[2] in ('AdbTimeoutError', 'UsbReadFailedError') and sc['read_timeout_ms'] is not None:
        r.bad('C14/spurious-timeout', 'stream %d: read raised %s after %d of %d bytes although the device delivers everything at once; %s' % (i, e[2], e[4], e[5], desc))
      elif e[2] == 'AdbStreamClosedError' and sc['close']:
        r.bad('C14/data-lost-at-close', 'stream %d: reported closed after %d of %d bytes; %s' % (i, e[4], e[5], desc))
      else:
        r.bad('C14/read-raised/%s' % e[2], 'stream %d: %s; %s' % (i, e[3], desc))
    elif got != want:
      what = 'reordered-or-foreign' if sorted(got) != sorted(want) or len(got) != len(want) else 'reordered'
      r.bad('C14/wrong-bytes/%s' % what, 'stream %d: read %r, device wrote %r; %s' % (i, got, want, desc))
  for e in res['errors']:
    if e[0] == 'write' and case['streams'][e[1]].get('ack_delay_s') and e[2] in ('AdbTimeoutError', 'UsbReadFailedError'):
      continue       # a device that acknowledges slowly: running into the timeout is what the write is supposed to do
    if e[0] == 'write':
      r.bad('C14/write-raised/%s' % e[2], 'stream %d: %s; %s' % (e[1], e[3], desc))
    if e[0] == 'open':
      r.bad('C14/open-failed', 'stream %d; %s' % (e[1], desc))
  # acks: exactly one host OKAY per device WRTE
  for i, (local, remote, host_data) in enumerate(res['streams']):
    n_dev_wrte = len([x for x in res['dev_log'] if x[0] == 'dev' and x[1] == 'WRTE' and x[3] == local])
    okays = [x for x in res['dev_log'] if x[0] == 'host' and x[1]['cmd'] == 'OKAY' and x[1]['arg0'] == local]
    if len(okays) != n_dev_wrte:
      r.bad('C14/ack-count', 'stream %d: %d device WRTEs, %d host OKAYs; %s' % (i, n_dev_wrte, len(okays), desc))
    if any(x[1]['arg1'] != remote for x in okays):
      r.bad('C14/ack-ids', 'stream %d: OKAY with wrong remote id; %s' % (i, desc))
    sc = case['streams'][i] if i < len(case['streams']) else None
    if sc and sc['write_len'] and not [e for e in res['errors'] if e[0] == 'write' and e[1] == i]:
      data = ''.join(chr(65 + (j % 26)) for j in range(sc['write_len']))
      data2 = ''.join(chr(97 + (j % 26)) for j in range(sc.get('write2_len') or 0))
      got_all = ''.join(host_data)
      if ''.join(c for c in got_all if c.isupper()) != data or ''.join(c for c in got_all if c.islower()) != data2:
        r.bad('C14/host-write-bytes', 'stream %d: device received %r, host wrote %r; %s' % (i, ''.join(host_data), data, desc))
  for v in res['dev_violations']:
    kind = 'second-WRTE-before-OKAY' if 'second WRTE' in v else 'chunk-exceeds-maxdata' if 'maxdata' in v else 'other'
    r.bad('C14/flow-control/%s' % kind, '%s; %s' % (v, desc))
  # timeouts respected
  stalled = any(isinstance(v, (list, tuple)) for v in plan.values())   # a thread descheduled for seconds overruns by that much
  for kind, i, dur, tmo, how in res['calls']:
    if tmo is not None and dur > tmo / 1000.0 + 0.2 and not stalled:
      r.bad('C14/timeout-exceeded', '%s on stream %d took %.3fs with timeout %sms (%s); %s' % (kind, i, dur, tmo, how, desc))
  return r, s



# ------------------------------------------------------------------ timeout_ms=0: "do not wait"
def check_zero_timeout(case):
  """case = {'zero': 'read'|'write'|'open'}: a call given timeout_ms=0 on a device that has nothing to say returns or raises
  at once (virtual time does not advance), and the connection goes on working."""
  r = CaseResult()
  vmode.setup(usb=True)
  vmode.quiet_logging()

  def fn(s):
    m = fk.load()
    ap = m.adb_protocol
    ap.STREAM_ID_LIMIT = 2 ** 16
    script = [{'open': 'OKAY', 'wrtes': [], 'close': False, 'ack_host_writes': case['zero'] != 'write'},
              {'open': 'SILENT' if case['zero'] == 'open' else 'OKAY', 'wrtes': ['later'], 'close': False}]
    dev = fk.ScriptedAdbDevice(script, maxdata=16, cond_factory=lambda: V.VCondition(sched=s), max_block_s=None)
    conn = ap.AdbConnection.connect(dev, timeout_ms=5000)
    s0 = conn.open_stream('svc0:', timeout_ms=5000)
    t0 = s.now
    try:
      if case['zero'] == 'read':
        got = ('returned', s0.read(timeout_ms=0))
      elif case['zero'] == 'write':
        got = ('returned', s0.write('abc', timeout_ms=0))
      else:
        got = ('returned', conn.open_stream('svc1:', timeout_ms=0) is not None)
    except Exception as e:  # pylint: disable=broad-except
      got = ('raised', type(e).__name__)
    return {'got': got, 'took': s.now - t0}

  s = V.Scheduler(plan={}, time_limit=600.0, max_steps=100000)
  res, exc = s.run(lambda: fn(s), watchdog_s=20.0)
  r.nontrivial = True
  r.classes = ['zero-timeout', 'call:' + case['zero']]
  if s.failure is not None:
    if s.failure[0] in ('deadlock', 'steplimit'):
      r.bad('C14/no-progress/zero-timeout-call-blocks', '%s(timeout_ms=0) never came back: %s' % (case['zero'], s.failure[1][:400]))
      return r, s
    raise RuntimeError('scheduler failure: %r' % (s.failure,))
  if exc is not None:
    raise exc
  if res['took'] > 0.2:
    r.bad('C14/timeout-exceeded', '%s(timeout_ms=0) took %.2f s (%r)' % (case['zero'], res['took'], res['got']))
  if res['got'][0] == 'raised' and res['got'][1] not in ('AdbTimeoutError', 'UsbReadFailedError', 'UsbWriteFailedError'):
    r.bad('C14/zero-timeout/wrong-error/%s' % res['got'][1], '%s(timeout_ms=0): %r' % (case['zero'], res['got']))
  return r, s


@st.composite
def cases(draw, small=False):
  n = 1 if small else draw(st.integers(1, 3))
  maxdata = draw(st.sampled_from([4, 16]))
  streams = []
  for i in range(n):
    k = draw(st.integers(1 if small else 0, 3))
    wr = [''.join(chr(97 + i) for _ in range(draw(st.integers(1, 6)))) + str(j) for j in range(k)]
    wr = [w[:6] for w in wr]
    write_len = draw(st.sampled_from([0, 0, 1, maxdata, maxdata + 1, 3 * maxdata])) if not small else draw(st.sampled_from([1, maxdata + 1]))
    streams.append({'wrtes': wr, 'close': draw(st.booleans()) and bool(wr) and not write_len, 'read_len': draw(st.sampled_from([0, 0, 1, 3])),
                    'read_timeout_ms': draw(st.sampled_from([None, None, 2000])), 'write_len': write_len,
                    'write_timeout_ms': draw(st.sampled_from([None, 2000])),
                    'write2_len': draw(st.sampled_from([0, 0, 1, maxdata + 1])) if write_len else 0})
    if wr and write_len and draw(st.integers(0, 3)) == 0:
      streams[-1]['echo'] = True          # the device answers on this stream only after the host has written on it
  merge = draw(st.permutations([i for i, sc in enumerate(streams) for _ in range(len(sc['wrtes']) + (1 if sc['close'] else 0))]))
  case = {'streams': streams, 'merge': list(merge), 'maxdata': maxdata}
  if draw(st.integers(0, 2)) == 0:
    case['msglog'] = True
  return case


@st.composite
def planned_cases(draw):
  case = draw(cases())
  if draw(st.booleans()):
    npre = draw(st.integers(1, 4))
    case['plan'] = {str(draw(st.integers(0, 6000))): draw(st.integers(0, 4)) for _ in range(npre)}
  else:
    case['random'] = [draw(st.integers(0, 10**6)), draw(st.sampled_from([0.01, 0.05, 0.2]))]
  return case


def setup_lines():
  vmode.setup(usb=True)
  m = fk.load()
  V.monitor_lines(V.code_objects_of(m.adb_protocol.AdbStreamTransport, m.adb_protocol.AdbConnection, m.adb_protocol.AdbStream,
                                    m.adb_message.AdbTransportAdapter, m.adb_message.DebugAdbTransportAdapter))


SWEEP_CASES = [
    {'streams': [{'wrtes': ['ab', 'cd'], 'close': False, 'read_len': 0, 'read_timeout_ms': None, 'write_len': 5, 'write_timeout_ms': None}],
     'merge': [0, 0], 'maxdata': 4},
    {'streams': [{'wrtes': ['abc'], 'close': False, 'read_len': 1, 'read_timeout_ms': None, 'write_len': 1, 'write_timeout_ms': None}],
     'merge': [0], 'maxdata': 4},
    {'streams': [{'wrtes': ['a1', 'a2'], 'close': False, 'read_len': 0, 'read_timeout_ms': None, 'write_len': 0, 'write_timeout_ms': None},
                 {'wrtes': ['b1'], 'close': True, 'read_len': 0, 'read_timeout_ms': None, 'write_len': 3, 'write_timeout_ms': None}],
     'merge': [1, 0, 0, 1], 'maxdata': 16},
]


SWEEP_CASES.append(
    {'streams': [{'wrtes': ['pong'], 'close': False, 'read_len': 0, 'read_timeout_ms': None, 'write_len': 4, 'write_timeout_ms': 2000, 'echo': True},
                 {'wrtes': ['zz'], 'close': False, 'read_len': 0, 'read_timeout_ms': None, 'write_len': 2, 'write_timeout_ms': 2000, 'echo': True}],
     'merge': [0, 1], 'maxdata': 16, 'msglog': True})
SWEEP_CASES.append(dict(SWEEP_CASES[0], msglog=True))


ECHO_CASES = [
    {'streams': [{'wrtes': ['pong'], 'close': False, 'read_len': 0, 'read_timeout_ms': None, 'write_len': 4, 'write_timeout_ms': 2000, 'echo': True}],
     'merge': [0], 'maxdata': 16, 'msglog': ml} for ml in (False, True)] + [
    {'streams': [{'wrtes': ['a1'], 'close': False, 'read_len': 0, 'read_timeout_ms': None, 'write_len': 0, 'write_timeout_ms': None},
                 {'wrtes': ['pong'], 'close': False, 'read_len': 0, 'read_timeout_ms': None, 'write_len': 20, 'write_timeout_ms': 2000, 'echo': True}],
     'merge': [0, 1], 'maxdata': 16, 'msglog': True}]


# a device that acknowledges every chunk late: the chunks of one write share the write's timeout
SLOW_ACK_CASES = [
    {'streams': [{'wrtes': [], 'close': False, 'read_len': 0, 'read_timeout_ms': None, 'write_len': n * md, 'write_timeout_ms': 2000, 'ack_delay_s': d}],
     'merge': [], 'maxdata': md} for md in (4, 16) for n in (1, 2, 3, 4) for d in (0.3, 0.9, 1.5)]


# the payload of a device WRTE arrives later than its header, later than the reader is prepared to wait: the read times out,
# the retried read still gets the stream's bytes, and the other stream is not disturbed
LATE_PAYLOAD_CASES = [
    {'streams': [{'wrtes': ['abcd', 'efgh'], 'close': False, 'read_len': 0, 'read_timeout_ms': 500, 'write_len': 0, 'write_timeout_ms': None, 'payload_delay_s': d}] + (
        [{'wrtes': ['xy'], 'close': False, 'read_len': 0, 'read_timeout_ms': None, 'write_len': 0, 'write_timeout_ms': None}] if two else []),
     'merge': [0, 1, 0] if two else [0, 0], 'maxdata': 16, 'retry_timeouts': True, 'msglog': ml} for d in (0.2, 0.8, 1.2) for two in (False, True) for ml in (False, True)]


STALL_CASES = [
    {'streams': [{'wrtes': ['abcd', 'efgh'], 'close': False, 'read_len': 0, 'read_timeout_ms': 2000, 'write_len': 0, 'write_timeout_ms': None},
                 {'wrtes': ['xy'], 'close': False, 'read_len': 0, 'read_timeout_ms': None, 'write_len': 0, 'write_timeout_ms': None}],
     'merge': [0, 1, 0], 'maxdata': 16, 'retry_timeouts': True},
    {'streams': [{'wrtes': ['abcdefgh'], 'close': False, 'read_len': 3, 'read_timeout_ms': 2000, 'write_len': 0, 'write_timeout_ms': None}],
     'merge': [0], 'maxdata': 16, 'retry_timeouts': True},
]


def plan(tier, seed):
  q = tier == 'quick'
  jobs = []
  for i in range(10):
    jobs.append({'kind': 'hyp', 'name': 'hyp%d' % i, 'hseed': seed * 1000 + i, 'n': 400 if q else 5000})
  for ci in range(len(SWEEP_CASES)):
    nsh = 2
    for sh in range(nsh):
      jobs.append({'kind': 'sweep', 'name': 'sweep%d.%d' % (ci, sh), 'case': ci, 'shard': sh, 'nshards': nsh, 'stride': 4 if q else 1, 'offset': seed % 4 if q else 0})
  jobs.append({'kind': 'unacked', 'name': 'unacked'})
  jobs.append({'kind': 'stall', 'name': 'stall'})
  return jobs


def run_job(job, acct):
  known = set(job.get('known', ()))
  if job['kind'] == '_regress':
    from vf import runner  # pylint: disable=g-import-not-at-top
    runner.run_regress(sys.modules[__name__], job, acct)
    return
  setup_lines()
  if job['kind'] == 'unacked':
    for maxdata in (4, 16):
      for len1 in (1, maxdata, maxdata + 1, 3 * maxdata):
        for len2 in (1, maxdata + 1):
          for other in (False, True):
            case = {'unacked': 1, 'maxdata': maxdata, 'len1': len1, 'len2': len2, 'other_stream': other}
            r, _ = check_unacked(case)
            acct.case(case, r.nontrivial, r.classes)
            for sig, detail in r.violations:
              (acct.known if sig in known else acct.violation)(sig, case, detail)
    acct.exhaustive_parts.append('never-acknowledged WRTE followed by another write(): maxdata x first/second write length x {other stream active}')
    return
  if job['kind'] == 'stall':
    # a reader with a finite timeout is descheduled past its deadline at every line of the message-reading path (between
    # header and payload of a device WRTE, before the acknowledgement, ...): its read may time out, but the stream stays
    # in step - retried reads deliver every byte, each WRTE is acknowledged once, the other stream is unaffected
    for base in STALL_CASES:
      r0, s0 = check(dict(base, trace=True))
      acct.case(base, r0.nontrivial, r0.classes)
      for sig, detail in r0.violations:
        (acct.known if sig in known else acct.violation)(sig, base, detail)
      pts = [k for k, tidx, tag in s0.tags if tag and tag[0] == 'line' and tag[1] in ('read_message', 'read_for_stream', '_handle_message_for_stream', '_read_messages_until_true')]
      for k in pts:
        case = dict(base, plan={str(k): ['stall', 2.5]})
        r, _ = check(case)
        acct.case(case, True, r.classes + ['stall'])
        for sig, detail in r.violations:
          (acct.known if sig in known else acct.violation)(sig, case, detail)
    acct.exhaustive_parts.append('reader stalled 2.5 s (timeout 2 s) at every line of the message-reading path, %d base cases' % len(STALL_CASES))
    # a request/response service (the device speaks only once it has been written to), plain and with the message log on:
    # the writer is descheduled for 50 ms at every line of its write path, so the reader is already parked in the
    # transport read when the write arrives - the pipe is full duplex, the write goes through and the answer wakes the reader
    for z in ('read', 'write', 'open'):
      case = {'zero': z}
      rz, _ = check_zero_timeout(case)
      acct.case(case, True, rz.classes)
      for sig, detail in rz.violations:
        (acct.known if sig in known else acct.violation)(sig, case, detail)
    for base in LATE_PAYLOAD_CASES:
      r0, _ = check(base)
      acct.case(base, True, r0.classes + ['late-payload'])
      for sig, detail in r0.violations:
        (acct.known if sig in known else acct.violation)(sig, base, detail)
    acct.exhaustive_parts.append('payload of a device WRTE delayed 0.2/0.8/1.2 s against a 0.5 s read timeout, one and two streams')
    for base in SLOW_ACK_CASES:
      r0, _ = check(base)
      acct.case(base, True, r0.classes + ['slow-acks'])
      for sig, detail in r0.violations:
        (acct.known if sig in known else acct.violation)(sig, base, detail)
    acct.exhaustive_parts.append('slow acknowledgements: maxdata x 1-4 chunks x ack delay 0.3/0.9/1.5 s against a 2 s write timeout')
    for base in ECHO_CASES:
      r0, s0 = check(dict(base, trace=True))
      acct.case(base, r0.nontrivial, r0.classes)
      for sig, detail in r0.violations:
        (acct.known if sig in known else acct.violation)(sig, base, detail)
      pts = [k for k, tidx, tag in s0.tags if tag and tag[0] == 'line' and tag[1] in ('write', 'write_message', 'send_message', 'enqueue_message', '_send_command')]
      for k in pts[:60]:
        case = dict(base, plan={str(k): ['stall', 0.05]})
        r, _ = check(case)
        acct.case(case, True, r.classes + ['writer-stall', 'msglog' if base.get('msglog') else 'plain'])
        for sig, detail in r.violations:
          (acct.known if sig in known else acct.violation)(sig, case, detail)
    acct.exhaustive_parts.append('echo service: writer stalled 50 ms at every line of the write path (message log off / on)')
    return
  if job['kind'] == 'hyp':
    hyp.search(acct, planned_cases(), lambda c: check(c)[0], seed=job['hseed'], max_examples=job['n'], known=known, shrink_budget_s=40)
  else:
    base = SWEEP_CASES[job['case']]
    r0, s0 = check(base)
    n = s0.k
    for k in range(job['offset'], n, job['stride']):
      if (k // job['stride']) % job['nshards'] != job['shard']:
        continue
      for choice in (0, 1):
        case = dict(base, plan={str(k): choice})
        r, _ = check(case)
        acct.case(case, r.nontrivial, r.classes + ['sweep-bound1'])
        for sig, detail in r.violations:
          (acct.known if sig in known else acct.violation)(sig, case, detail)
    if job['stride'] == 1 and job['shard'] == 0:
      acct.exhaustive_parts.append('sweep case %d: every single preemption over %d yield points' % (job['case'], n))


def replay(case):
  setup_lines()
  if case.get('zero'):
    return check_zero_timeout(case)[0].violations
  if case.get('unacked'):
    return check_unacked(case)[0].violations
  return check(case)[0].violations
