"""C10 - serialized (base-type / JSON) view always equals the in-memory record."""
import base64
import copy
import enum
import hashlib
import io
import json
import math
import sys
import threading

from hypothesis import strategies as st

from vf import hyp
from vf import ohtf
from vf import progs
from vf.hyp import CaseResult
from vf.props.c07 import dec, enc

ID = 'C10'
LEVEL = 'exploration'
RULE = ('Case = a C02-style generated program (subtests, branches, checkpoints, diagnosers, test diagnosers) into which one '
        '"rich" phase is inserted; the rich phase declares 1-3 measurements (scalar/1-D/2-D, optional transform) and executes a '
        'generated operation history (<=30 ops): set / override (scalar and per coordinate), attach (bytes/str, mimetypes), log, '
        'interleaved with READS of the live view (TestState.as_base_types(), asdict_with_event()[0], PhaseState.as_base_types()).  '
        'Values from None, bool, int, float incl. NaN/+-inf, str, enums, nested lists/tuples/str-keyed dicts.  Oracles: (1) an '
        'independent value renderer written from the convert_to_base_types docstring + a history model give the expected '
        'measured_value / outcome / attachment listing at every live read and in the final record; (2) every cached list of the '
        'TestRecord rendering equals a re-rendering of the in-memory objects with caches reset; (3) every record list attribute '
        '(phases, subtests, branches, checkpoints, diagnosers, diagnoses, log_records) is present with the same length; (4) '
        'OutputToJSON (allow_nan False/True) parses as strict JSON, equals the base-type view with tuples as lists, attachments '
        'base64-decode to the attached bytes and sha1 matches.  Non-trivial = history with an override, a transformed dimensioned '
        'value or a read between two writes; or a record with checkpoint/branch/subtest; distinct by canonical case.  The rich '
        'phase\'s measurements may carry conditional validators (validate_on) whose diagnosis result an inserted phase has / has not issued.')
ASSUMPTIONS = ['Deep copies used for the cache-reset re-rendering are made with copy.deepcopy (Attachment copies re-read their file).']


class Color(enum.Enum):
  RED = 1
  GREEN = 'g'


def render_value(v):
  """Independent value-layer renderer (from the convert_to_base_types docstring), json_safe=True."""
  if v is None or isinstance(v, (bool, str)):
    return v
  if isinstance(v, enum.Enum):
    return v.name
  if isinstance(v, int):
    return int(v)
  if isinstance(v, float):
    if math.isnan(v) or math.isinf(v):
      return str(v)
    return v
  if isinstance(v, dict):
    return {render_value(k): render_value(x) for k, x in v.items()}
  if isinstance(v, list):
    return [render_value(x) for x in v]
  if isinstance(v, tuple):
    return tuple(render_value(x) for x in v)
  return str(v)


def deep_same(a, b, tuples_as_lists=False):
  if isinstance(a, float) and isinstance(b, float):
    return (a != a and b != b) or a == b and math.copysign(1, a) == math.copysign(1, b) or a == b
  if isinstance(a, dict) and isinstance(b, dict):
    return set(a) == set(b) and all(deep_same(a[k], b[k], tuples_as_lists) for k in a)
  seq = (list, tuple)
  if isinstance(a, seq) and isinstance(b, seq):
    if not tuples_as_lists and type(a) != type(b):
      return False
    return len(a) == len(b) and all(deep_same(x, y, tuples_as_lists) for x, y in zip(a, b))
  if isinstance(a, bool) != isinstance(b, bool):
    return False
  return type(a) == type(b) and a == b or (isinstance(a, (int, float)) and isinstance(b, (int, float)) and not isinstance(a, bool) and a == b and type(a) == type(b))


def first_diff(a, b, path='', tuples_as_lists=False):
  if isinstance(a, dict) and isinstance(b, dict):
    for k in sorted(set(a) | set(b), key=str):
      if k not in a or k not in b:
        return '%s[%r]: %s' % (path, k, 'missing in first' if k not in a else 'missing in second')
      d = first_diff(a[k], b[k], '%s[%r]' % (path, k), tuples_as_lists)
      if d:
        return d
    return None
  if isinstance(a, (list, tuple)) and isinstance(b, (list, tuple)) and (tuples_as_lists or type(a) == type(b)):
    if len(a) != len(b):
      return '%s: length %d vs %d' % (path, len(a), len(b))
    for i, (x, y) in enumerate(zip(a, b)):
      d = first_diff(x, y, '%s[%d]' % (path, i), tuples_as_lists)
      if d:
        return d
    return None
  if not deep_same(a, b, tuples_as_lists):
    return '%s: %r vs %r' % (path, a, b)
  return None


def decv(j):
  """value codec extension: enums and nested containers."""
  if isinstance(j, dict) and 'enum' in j:
    return Color[j['enum']]
  if isinstance(j, dict) and 'dict' in j:
    return {k: decv(v) for k, v in j['dict']}
  if isinstance(j, dict) and 't' in j:
    return tuple(decv(x) for x in j['t'])
  if isinstance(j, list):
    return [decv(x) for x in j]
  return dec(j)


def model_transform(ts, v):
  if ts is None:
    return v
  if ts[0] == 'mul':
    return v * ts[1]
  if ts[0] == 'str':
    return 's:%s' % (v,)
  if ts[0] == 'prec':
    return round(v, ndigits=ts[1])


BIG_SIZES = [57, 58, 76, 77, 1023, 1024, 1025, 4095, 4096, 4097, 8192, 8193, 49152, 65535, 65536, 65537, 98304, 131072, 131073, 196609, 262145]


def expand_text(pattern, n):
  """A latin-1 text of exactly n characters, a deterministic non-periodic function of (pattern, n)."""
  out, i = [], 0
  key = pattern.encode('latin-1')
  while 32 * len(out) < n:
    out.append(hashlib.sha256(key + b'/%d' % i).digest())
    i += 1
  return (pattern.encode('latin-1') + b''.join(out))[:n].decode('latin-1')


def _accept_rows(rows):
  return True


def _emitter(test):
  pass


def check(case):
  r = CaseResult()
  from openhtf.util import validators as _validators  # pylint: disable=g-import-not-at-top
  prog = copy.deepcopy(case['prog'])
  htf = ohtf.reset_case(cancel_timeout_s=0.05, plug_teardown_timeout_s=0.05, **progs.conf_values(prog))
  # a station configuration value that is not plain JSON data (the configuration snapshot is part of every record)
  from openhtf.util import configuration as _configuration  # pylint: disable=g-import-not-at-top
  if 'vf_c10_calibration' not in _configuration.CONF._declarations:  # pylint: disable=protected-access
    _configuration.CONF.declare('vf_c10_calibration')
  conf_kind = case.get('conf_value')
  if conf_kind:
    _configuration.CONF.load(vf_c10_calibration={'inf': float('inf'), 'nan': float('nan'), 'set': {1, 2}, 'tuple': (1, 2.5), 'nested-nan': {'gain': [1.0, float('nan')]}}[conf_kind])
  ctx = progs.Ctx()
  decls = case['meas']
  names = ['rm%d' % i for i in range(len(decls))]
  ms = []
  for name, d in zip(names, decls):
    m = htf.Measurement(name)
    if d['dims']:
      m = m.with_dimensions(*['d%d' % i for i in range(d['dims'])])
    if d['transform']:
      ts = d['transform']
      if ts[0] == 'prec':
        m = m.with_precision(ts[1])
      elif ts[0] == 'mul':
        m = m.with_transform(lambda x, k=ts[1]: x * k)
      else:
        m = m.with_transform(lambda x: 's:%s' % (x,))
    if d.get('validator'):
      m = m.in_range(0, 10) if not d['dims'] else m
    if d.get('cv'):
      # conditional validator: becomes a validator of the running phase's copy iff the diagnosis result was issued before
      R = progs.result_enum()
      m = m.validate_on({(R.R3 if d['cv'] == 'active' else R.R2): (_validators.in_range(0, 10) if not d['dims'] else _accept_rows)})
    ms.append(m)
  problems = []
  model = {n: {'set': False, 'value': None, 'rows': []} for n in names}
  attached = {}
  flags = {'override': False, 'dim_transform': False, 'read_between_writes': False, 'writes': 0, 'reads_after_write': 0}
  logs_emitted = []

  def expected_measured(name, d):
    mo = model[name]
    if d['dims'] == 0:
      return (True, render_value(mo['value'])) if mo['set'] else (False, None)
    if not mo['rows']:
      return (False, None)
    return (True, [render_value(tuple(c) + (v,)) for c, v in mo['rows']])

  def check_view(state, view_measurements, view_attachments, when):
    for name, d in zip(names, decls):
      mview = view_measurements.get(name)
      if mview is None:
        problems.append(('C10/live/measurement-missing', '%s: %s not in the view' % (when, name)))
        continue
      is_set, exp = expected_measured(name, d)
      if is_set:
        if 'measured_value' not in mview:
          problems.append(('C10/live/measured-value-missing', '%s: %s is set (%r) but the view has no measured_value' % (when, name, exp)))
        elif not deep_same(mview['measured_value'], exp, tuples_as_lists=True):
          kind = 'dimensioned' if d['dims'] else 'scalar'
          problems.append(('C10/live/stale-or-wrong-value/%s%s' % (kind, '+transform' if d['transform'] else ''),
                           '%s: %s view %r, in-memory (model) %r' % (when, name, mview['measured_value'], exp)))
      elif 'measured_value' in mview:
        problems.append(('C10/live/value-for-unset', '%s: %s never set but view shows %r' % (when, name, mview['measured_value'])))
      actual = state.running_phase_state.measurements[name].outcome.name
      if mview.get('outcome') != actual:
        problems.append(('C10/live/stale-outcome/%s' % actual, '%s: %s view outcome %r, in-memory outcome %s' % (when, name, mview.get('outcome'), actual)))
    exp_att = {k: {'mimetype': v[1], 'sha1': hashlib.sha1(v[0]).hexdigest()} for k, v in attached.items()}
    if not deep_same(view_attachments, exp_att):
      problems.append(('C10/live/attachments', '%s: view %r expected %r' % (when, view_attachments, exp_att)))

  kept = {}

  def body(state):
    test = state.test_api
    last_was_write = False
    for k, op in enumerate(case['ops']):
      kind = op[0]
      try:
        if kind == 'set':
          i = op[1] % len(names)
          name, d = names[i], decls[i]
          if d['dims']:
            continue
          v = decv(op[2])
          try:
            tv = model_transform(d['transform'], v)
          except Exception:  # pylint: disable=broad-except
            continue
          mo = model[name]
          flags['override'] = flags['override'] or mo['set']
          mo['set'], mo['value'] = True, tv
          try:
            test.measurements[name] = v
          except Exception:  # pylint: disable=broad-except
            if not (d.get('validator') or d.get('cv')):  # in_range raises on non-numbers: the value is recorded nevertheless
              raise
          flags['writes'] += 1
          last_was_write = True
        elif kind == 'regrow':
          # the phase keeps the list it assigned, extends it in place and assigns the same object again
          i = op[1] % len(names)
          name, d = names[i], decls[i]
          if d['dims'] or d['transform'] or d.get('validator') or d.get('cv'):
            continue
          obj = kept.get(name)
          if obj is None:
            obj = kept[name] = [1.5]
          else:
            obj.append(len(obj) + 0.5)
          mo = model[name]
          flags['override'] = flags['override'] or mo['set']
          mo['set'], mo['value'] = True, list(obj)
          test.measurements[name] = obj
          flags['writes'] += 1
          last_was_write = True
        elif kind == 'setc':
          i = op[1] % len(names)
          name, d = names[i], decls[i]
          if not d['dims']:
            continue
          coords = decv(op[2])
          if not isinstance(coords, tuple):
            coords = (coords,)
          coords = tuple(list(coords) + [0] * d['dims'])[:d['dims']]
          v = decv(op[3])
          try:
            tv = model_transform(d['transform'], v)
            hash(coords)
          except Exception:  # pylint: disable=broad-except
            continue
          mo = model[name]
          for row in mo['rows']:
            if row[0] == coords:
              row[1] = tv
              flags['override'] = True
              break
          else:
            mo['rows'].append([coords, tv])
          if d['transform']:
            flags['dim_transform'] = True
          test.measurements[name][coords if d['dims'] > 1 else coords[0]] = v
          flags['writes'] += 1
          last_was_write = True
        elif kind == 'attach':
          name = 'att%d%s' % (op[1], op[3])
          if name in attached:
            continue
          text = op[2]
          if len(op) > 6 and op[6]:
            text = expand_text(op[2], op[6])
            flags['big_attachment'] = True
          datab = text.encode('latin-1') if op[4] == 'bytes' else text
          mt = {'infer': 'INFER', 'none': None}.get(op[5], op[5])
          if mt == 'INFER':
            test.attach(name, datab)
            import mimetypes  # pylint: disable=g-import-not-at-top
            mt = mimetypes.guess_type(name)[0]
          else:
            test.attach(name, datab, mimetype=mt)
          attached[name] = (datab if isinstance(datab, bytes) else datab.encode(), mt)
          flags['writes'] += 1
          last_was_write = True
        elif kind == 'log':
          msg = 'vf-log %d %s' % (k, op[2])
          getattr(test.logger, op[1])(msg)
          logs_emitted.append(msg)
        elif kind in ('read_state', 'read_event', 'read_phase'):
          if kind == 'read_state':
            view = state.as_base_types()
            pview = view['running_phase_state']
          elif kind == 'read_event':
            view = state.asdict_with_event()[0]
            pview = view['running_phase_state']
          else:
            view = None
            pview = state.running_phase_state.as_base_types()
          if last_was_write and flags['writes'] >= 1:
            flags['reads_after_write'] += 1
          last_was_write = False
          check_view(state, pview['measurements'], pview['attachments'], 'op %d %s' % (k, kind))
          if view is not None:
            lr = view['test_record']['log_records']
            n_mine = len([x for x in lr if x['message'].startswith('vf-log ')])
            if n_mine != len(logs_emitted):
              problems.append(('C10/live/log-records', 'op %d: view has %d of my log records, emitted %d' % (k, n_mine, len(logs_emitted))))
            if len(lr) != len(state.test_record.log_records):
              problems.append(('C10/live/log-records', 'op %d: view has %d log records, record has %d' % (k, len(lr), len(state.test_record.log_records))))
      except Exception as e:  # pylint: disable=broad-except
        problems.append(('C10/op-raised/%s/%s' % (kind, type(e).__name__), 'op %d %r raised %r' % (k, op, e)))
    if flags['reads_after_write'] >= 2:
      flags['read_between_writes'] = True

  body.__name__ = 'rich'
  rich = htf.PhaseOptions(requires_state=True)(htf.measures(*ms)(body)) if ms else htf.PhaseOptions(requires_state=True)(body)
  ctx.raw[1000] = rich
  pos = case['pos'] % (len(prog['nodes']) + 1)
  prog['nodes'].insert(pos, {'t': 'raw', 'id': 1000})
  if any(d.get('cv') == 'active' for d in decls):
    R = progs.result_enum()

    @htf.PhaseDiagnoser(R)
    def emit_r3(phase_record):
      return htf.Diagnosis(R.R3, 'issued before the rich phase')

    ctx.raw[1001] = htf.diagnose(emit_r3)(_emitter)
    prog['nodes'].insert(pos, {'t': 'raw', 'id': 1001})
  test, tsarg = progs.build_test(prog, ctx, htf)
  final = []
  test.add_output_callbacks(final.append)
  sinks = {False: io.BytesIO(), True: io.BytesIO()}
  from openhtf.output.callbacks import json_factory  # pylint: disable=g-import-not-at-top
  json_errors = {}

  def json_cb(rec, allow):
    n_logs_before = len(rec.log_records)
    try:
      json_factory.OutputToJSON(sinks[allow], allow_nan=allow)(rec)
    except Exception as e:  # pylint: disable=broad-except
      json_errors[allow] = e
    if not allow:  # the base-type view at the moment the JSON was produced (framework logs keep arriving)
      try:
        rendered['bt'] = copy.deepcopy(rec.as_base_types())
      except Exception as e:  # pylint: disable=broad-except
        rendered['bt_error'] = e
      # threads of abandoned (timed-out) phases log whenever they finally exit; if one did so around the JSON rendering,
      # the two renderings legitimately describe different moments and their log lists are not compared
      rendered['logs_moved'] = len(rec.log_records) != n_logs_before

  rendered = {}
  test.add_output_callbacks(lambda rec: json_cb(rec, False), lambda rec: json_cb(rec, True))
  # metadata the station declares its test with: plain nested data, some of it under keys that happen to be called
  # 'config' (the top-level 'config' entry is the framework's own configuration snapshot)
  declared_md = {'station_info': {'config': 'rev-A', 'site': 'X', 'fixture': {'config': {'slots': 4}, 'ids': [1, 2]}}, 'operator': 'op7'}
  test.descriptor.metadata.update(copy.deepcopy(declared_md))
  try:
    test.execute(test_start=tsarg)
  except Exception as e:  # pylint: disable=broad-except
    r.bad('C10/execute-raised', repr(e))
    ctx.cancel.set()
    return r
  ctx.cancel.set()
  for sig, detail in problems:
    r.bad(sig, detail)
  rec = final[0]
  from openhtf.util import data  # pylint: disable=g-import-not-at-top
  bt = rec.as_base_types()
  # (3) every record list represented with the same length
  for attr_name in ('phases', 'subtests', 'branches', 'checkpoints', 'diagnosers', 'diagnoses', 'log_records'):
    if attr_name not in bt:
      if getattr(rec, attr_name):
        r.bad('C10/record-list-missing/%s' % attr_name, 'record has %d %s but as_base_types() has no such key' % (len(getattr(rec, attr_name)), attr_name))
    elif len(bt[attr_name]) != len(getattr(rec, attr_name)):
      r.bad('C10/record-list-length/%s' % attr_name, '%d rendered vs %d in memory' % (len(bt[attr_name]), len(getattr(rec, attr_name))))
  # (2) caches vs re-rendering with caches reset
  for i, p in enumerate(rec.phases):
    saved = p.measurements
    fresh_meas = {}
    for k, m in (saved or {}).items():
      m = copy.deepcopy(m)
      m._cached = None  # pylint: disable=protected-access
      mv = m.measured_value
      if hasattr(mv, '_cached_basetype_values'):
        mv._cached_basetype_values = None  # pylint: disable=protected-access
      elif mv.is_value_set:
        mv._cached_value = data.convert_to_base_types(mv.stored_value)  # pylint: disable=protected-access
      fresh_meas[k] = m
    try:
      p.measurements = fresh_meas if saved is not None else None
      fresh = p.as_base_types()
    finally:
      p.measurements = saved
    if i < len(bt.get('phases', [])):
      d = first_diff(bt['phases'][i], fresh, 'phases[%d]' % i)
      if d:
        r.bad('C10/cache-vs-fresh/phase', d)
  for attr_name in ('subtests', 'branches', 'checkpoints', 'diagnoses'):
    if attr_name in bt:
      fresh = [data.convert_to_base_types(x) for x in getattr(rec, attr_name)]
      d = first_diff(bt[attr_name], fresh, attr_name)
      if d:
        r.bad('C10/cache-vs-fresh/%s' % attr_name, d)
  if 'log_records' in bt:
    d = first_diff(bt['log_records'], [l._asdict() for l in rec.log_records], 'log_records')
    if d:
      r.bad('C10/cache-vs-fresh/log_records', d)
  for k, v in declared_md.items():
    if rec.metadata.get(k) != v:
      r.bad('C10/metadata/record-differs-from-declaration', '%s: record %r, declared %r' % (k, rec.metadata.get(k), v))
    elif (bt.get('metadata') or {}).get(k) != v:
      r.bad('C10/metadata/view-differs-from-record', '%s: rendered %r, record holds %r' % (k, (bt.get('metadata') or {}).get(k), v))
  for k in ('dut_id', 'start_time_millis', 'end_time_millis', 'marginal'):
    if bt.get(k) != getattr(rec, k):
      r.bad('C10/record-field/%s' % k, '%r vs %r' % (bt.get(k), getattr(rec, k)))
  if bt.get('outcome') != (rec.outcome.name if rec.outcome else None):
    r.bad('C10/record-field/outcome', '%r vs %r' % (bt.get('outcome'), rec.outcome))
  # (1) final values of the rich phase against the model
  rp = [p for p in bt.get('phases', []) if p['name'] == 'rich']
  rich_ran = bool(rp)
  if rich_ran:
    pv = rp[0]
    for name, d in zip(names, decls):
      mo = model[name]
      mview = pv['measurements'].get(name, {})
      if d['dims'] == 0:
        is_set, exp = (True, render_value(mo['value'])) if mo['set'] else (False, None)
      else:
        is_set, exp = (True, [render_value(tuple(c) + (v,)) for c, v in mo['rows']]) if mo['rows'] else (False, None)
      if is_set and not deep_same(mview.get('measured_value'), exp, tuples_as_lists=True):
        r.bad('C10/final/stale-or-wrong-value/%s%s' % ('dimensioned' if d['dims'] else 'scalar', '+transform' if d['transform'] else ''),
              '%s: rendered %r, in-memory (model) %r' % (name, mview.get('measured_value'), exp))
      elif not is_set and 'measured_value' in mview:
        r.bad('C10/final/value-for-unset', '%s: %r' % (name, mview['measured_value']))
      prec = [p for p in rec.phases if p.name == 'rich'][0]
      if mview.get('outcome') != prec.measurements[name].outcome.name:
        r.bad('C10/final/stale-outcome', '%s: rendered %r in-memory %s' % (name, mview.get('outcome'), prec.measurements[name].outcome.name))
  # (4) JSON
  for allow in (False, True):
    if allow in json_errors:
      r.bad('C10/json/raised-%s' % type(json_errors[allow]).__name__, 'OutputToJSON(allow_nan=%s) raised %r' % (allow, json_errors[allow]))
      continue
    text = sinks[allow].getvalue().decode('utf-8')

    def bad_const(c):
      raise ValueError('non-strict JSON token %s' % c)

    try:
      doc = json.loads(text, parse_constant=None if allow else bad_const)
    except ValueError as e:
      r.bad('C10/json/not-strict', 'allow_nan=%s: %r' % (allow, e))
      continue
    # attachments: inline, base64
    if 'bt' not in rendered:
      r.bad('C10/base-types-not-copyable', repr(rendered.get('bt_error')))
      continue
    view = copy.deepcopy(rendered['bt'])
    for pj, pm in zip(doc.get('phases', []), rec.phases):
      for aname, att in pm.attachments.items():
        aj = pj['attachments'].get(aname)
        if aj is None or 'data' not in aj:
          r.bad('C10/json/attachment-missing', '%s' % aname)
          continue
        b64 = aj.pop('data')
        try:
          raw = base64.b64decode(b64, validate=True)
        except Exception as e:  # pylint: disable=broad-except
          r.bad('C10/json/attachment-not-base64', '%s (%d bytes attached): %r' % (aname, len(attached.get(aname, (b'',))[0]), e))
          continue
        if aname in attached and raw != attached[aname][0]:
          r.bad('C10/json/attachment-bytes', '%s: %d bytes decoded, %d attached' % (aname, len(raw), len(attached[aname][0])))
        if hashlib.sha1(raw).hexdigest() != aj.get('sha1'):
          r.bad('C10/json/attachment-sha1', aname)
    if not allow:
      if rendered.get('logs_moved'):
        doc.pop('log_records', None)
        view.pop('log_records', None)
        flags['logs_moved'] = True
      d = first_diff(doc, json.loads(json.dumps(view, default=lambda o: o._asdict(), allow_nan=False)), 'json', tuples_as_lists=True)
      if d:
        r.bad('C10/json/differs-from-base-types', d)
  feats = progs.features(case['prog'])
  shape = bool(rec.checkpoints or rec.branches or rec.subtests)
  r.nontrivial = bool(rich_ran and (flags['override'] or flags['dim_transform'] or flags['read_between_writes'])) or shape
  r.classes = [k for k in ('override', 'dim_transform', 'read_between_writes', 'big_attachment', 'logs_moved') if flags.get(k)] + (
      ['rich-ran'] if rich_ran else ['rich-not-reached']) + (['shape'] if shape else []) + (
          ['has-checkpoint'] if rec.checkpoints else []) + (['has-branch'] if rec.branches else []) + (['has-subtest'] if rec.subtests else [])
  return r


# ------------------------------------------------------------------ generators
SCALARS = st.one_of(
    st.integers(-5, 15), st.floats(-5, 15, allow_nan=False), st.text(max_size=4),
    st.sampled_from([None, True, False, float('nan'), float('inf'), -float('inf'), -0.0, 10**30, 1e308, 'x"y', 'é中', 'a\\b\n']))


def _encv(v):
  if isinstance(v, Color):
    return {'enum': v.name}
  if isinstance(v, dict):
    return {'dict': [[k, _encv(x)] for k, x in v.items()]}
  if isinstance(v, tuple):
    return {'t': [_encv(x) for x in v]}
  if isinstance(v, list):
    return [_encv(x) for x in v]
  return enc(v)


VALUES = st.recursive(
    st.one_of(SCALARS, st.sampled_from([Color.RED, Color.GREEN])),
    lambda kids: st.one_of(st.lists(kids, max_size=3), st.lists(kids, max_size=3).map(tuple),
                           st.dictionaries(st.text(max_size=3), kids, max_size=3)),
    max_leaves=6).map(_encv)
NUMERIC = st.one_of(st.integers(-5, 15), st.floats(-5, 15, allow_nan=False), st.sampled_from([float('nan'), float('inf'), 2, 0.5])).map(enc)


@st.composite
def ops(draw, decls):
  kind = draw(st.sampled_from(['set', 'set', 'setc', 'setc', 'setc', 'attach', 'log', 'read_state', 'read_event', 'read_phase', 'read_state', 'regrow']))
  if kind == 'regrow':
    return ['regrow', draw(st.integers(0, 2))]
  if kind == 'set':
    i = draw(st.integers(0, len(decls) - 1)) if decls else 0
    numeric = bool(decls) and decls[i]['transform'] and decls[i]['transform'][0] in ('mul', 'prec')
    return ['set', i, draw(NUMERIC if numeric else VALUES)]
  if kind == 'setc':
    i = draw(st.integers(0, len(decls) - 1)) if decls else 0
    numeric = bool(decls) and decls[i]['transform'] and decls[i]['transform'][0] in ('mul', 'prec')
    c = draw(st.one_of(st.integers(0, 2), st.sampled_from(['a', 'b']), st.tuples(st.integers(0, 2), st.integers(0, 1))))
    return ['setc', i, _encv(c), draw(NUMERIC if numeric else VALUES)]
  if kind == 'attach':
    # sizes are not narrowed: most attachments are a few bytes, one in five is grown (deterministically from the drawn
    # text) to a length around the block sizes of base64 / buffered IO or to an arbitrary length up to 300 kB
    size = draw(st.one_of(st.just(0), st.just(0), st.just(0), st.just(0), st.sampled_from(BIG_SIZES), st.integers(13, 300000)))
    return ['attach', draw(st.integers(0, 3)), draw(st.text(alphabet=[chr(i) for i in range(256)], max_size=12)),
            draw(st.sampled_from(['', '.txt', '.png', '.bin'])), draw(st.sampled_from(['bytes', 'str'])),
            draw(st.sampled_from(['infer', 'none', 'text/plain', 'application/x-vf'])), size]
  if kind == 'log':
    return ['log', draw(st.sampled_from(['info', 'warning', 'debug', 'error'])), draw(st.text(max_size=6))]
  return [kind]


@st.composite
def cases(draw):
  prog = draw(progs.programs(strict=False, max_nodes=7, maxdepth=2, with_test_start=False))
  nm = draw(st.integers(1, 3))
  decls = [{'dims': draw(st.sampled_from([0, 0, 1, 2])),
            'transform': draw(st.sampled_from([None, None, ['mul', 100], ['mul', 2], ['str'], ['prec', 1]])),
            'validator': draw(st.booleans()), 'cv': draw(st.sampled_from([None, None, 'active', 'inactive']))} for _ in range(nm)]
  n = draw(st.integers(1, 30))
  case = {'prog': prog, 'meas': decls, 'ops': [draw(ops(decls)) for _ in range(n)], 'pos': draw(st.integers(0, 3))}
  if draw(st.integers(0, 5)) == 0:
    case['conf_value'] = draw(st.sampled_from(['inf', 'nan', 'set', 'tuple', 'nested-nan']))
  return case


def plan(tier, seed):
  n = 250 if tier == 'quick' else 5000
  jobs = [{'kind': 'hyp', 'name': 'hyp%d' % i, 'hseed': seed * 1000 + i, 'n': n} for i in range(16)]
  # the log-record cache with two or three threads of one run logging at once (engine: C19's scheduled shared-record case)
  jobs += [{'kind': 'sharedlog', 'name': 'sharedlog.%d.%d' % (nt, k), 'threads': nt, 'msgs': k} for nt, k in ((2, 1), (2, 2), (3, 1))]
  return jobs


def run_job(job, acct):
  known = set(job.get('known', ()))
  if job['kind'] == '_regress':
    from vf import runner  # pylint: disable=g-import-not-at-top
    runner.run_regress(sys.modules[__name__], job, acct)
    return
  if job['kind'] == 'sharedlog':
    from vf.props import c19  # pylint: disable=g-import-not-at-top
    base = {'sharedrec': job['threads'], 'msgs': job['msgs'], 'plan': {}}
    r0, s0 = c19.check_shared_record(base)
    cases_ = [base] + [dict(base, plan={str(k): c}) for k in range(s0.k + 2) for c in range(job['threads'] + 1)]
    for case in cases_:
      r, _ = c19.check_shared_record(case)
      acct.case({'sharedlog': case}, r.nontrivial, ['shared-log-cache'] + r.classes[1:])
      for sig, detail in r.violations:
        if sig == 'C19/shared-record/view-differs-from-record':
          (acct.known if 'C10/logs/cached-view-differs-from-record' in known else acct.violation)('C10/logs/cached-view-differs-from-record', {'sharedlog': case}, detail)
    acct.exhaustive_parts.append('%d threads of one run logging %d message(s): every single preemption' % (job['threads'], job['msgs']))
    return
  hyp.search(acct, cases(), check, seed=job['hseed'], max_examples=job['n'], known=known)


def replay(case):
  if 'sharedlog' in case:
    from vf.props import c19  # pylint: disable=g-import-not-at-top
    return [('C10/logs/cached-view-differs-from-record', d) for sg, d in c19.check_shared_record(case['sharedlog'])[0].violations
            if sg == 'C19/shared-record/view-differs-from-record']
  return check(case).violations
