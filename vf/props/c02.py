"""C02 - node execution follows docs/event_sequence.md: full differential against the reference interpreter."""
import sys
import threading

from vf import diff
from vf import hyp
from vf import progs
from vf import rmode
from vf import spec
from vf.hyp import CaseResult

ID = 'C02'
LEVEL = 'exploration'
RULE = ('Programs = trees of phases/sequences/groups/subtests/branches/checkpoints with per-invocation behaviour '
        'scripts (strict grammar: the sub-language on which docs/event_sequence.md is unambiguous), drawn by a '
        'recursive Hypothesis strategy (<=14 nodes, depth<=3) plus ALL trees with k leaves over a 10-letter leaf '
        'alphabet x all structure shapes (quick k<=2 complete and k=3 sharded sample, thorough k<=3 complete).  Each program is executed through the real '
        'Test.execute() and compared with an independent reference interpreter: body/run_if/diagnoser event order, '
        'phase and checkpoint records as sequences, branch and subtest records as multisets, diagnoses.  '
        'Non-trivial = a terminal node inside a nested collection, a failed subtest with nodes after the failure, a '
        'branch depending on an earlier diagnosis, or a checkpoint that fires; distinct by canonical AST.')
ASSUMPTIONS = [
    'Timeout phases use timeout_s=0 with a body that blocks until killed; whether such a body starts at all is not compared.',
    'A SKIP record for a run_if=False phase inside the skipped remainder of a failed subtest is optional (C02 vs C05 wording).',
    'Groups/subtests nested inside a teardown are outside the strict grammar (docs ambiguous); they are covered by invariants only.',
]


def timeout_pids(prog):
  return [p['id'] for p in progs.all_phases(prog) if p['o'].get('to') == 0]


def nontrivial_classes(prog, x):
  cls = []
  feats = progs.features(prog)
  if x.first_terminal is not None and (feats & {'group', 'subtest', 'branch', 'seq'}):
    cls.append('terminal-in-nested')
  if any(o in ('FAIL', 'STOP') for (_, o) in x.subtests):
    cls.append('failed-subtest')
    if any(p['outcome'] == 'SKIP' and p['result'] == 'SKIP' and p['meas'] is None for p in x.phases):
      cls.append('failed-subtest-with-skips')
  if any(t for (_, t) in x.branches) and x.diagnoses:
    cls.append('branch-taken-with-diagnoses')
  if any(c['result'] in ('STOP', 'FAIL_SUBTEST') for c in x.checkpoints):
    cls.append('checkpoint-fires')
  if 'in_td:phase' in feats and x.first_terminal is not None:
    cls.append('terminal-with-teardown')
  return cls


_BASE = {'threads': None}


def group_invariants(prog, obs):
  """Doc-derived invariant for free-grammar programs: a group whose setup and main bodies ran is torn down.

  (event_sequence.md: groups 'are entered if their setup phases are all non-terminal; if this happens, the
  teardown phases are guaranteed to run'.)  Only applied to groups whose phases are plain always-run phases.
  """
  out = []
  ran = {e[1] for e in obs.events if e[0] == 'body'}
  recs = {p['name']: p for p in obs.record['phases']} if obs.record else {}
  for n, c in progs.walk(prog['nodes']):
    if n['t'] != 'group' or not n['td']:
      continue
    plain = lambda lst: [p for p in lst if p['t'] == 'phase' and not p['o'].get('run_if') and p['o'].get('to') is None]
    s, m, td = plain(n['s']), plain(n['m']), plain(n['td'])
    if len(s) != len(n['s']) or len(td) != len(n['td']) or not m or len(m) != len(n['m']):
      continue
    setup_ok = all(p['id'] in ran and recs.get('p%d' % p['id'], {}).get('outcome') in ('PASS', 'FAIL', 'SKIP') and
                   not spec.is_terminal_kind(recs['p%d' % p['id']]['result']) for p in s)
    main_started = m[0]['id'] in ran
    if setup_ok and main_started and not all(p['id'] in ran for p in td):
      out.append(('group-entered-not-torn-down', 'group g%d: setup completed and main ran, but teardown bodies %r did not run' % (
          n['id'], [p['id'] for p in td if p['id'] not in ran])))
  return out


def check(prog, strict=True):
  r = CaseResult()
  x = spec.expect(prog)
  if _BASE['threads'] is None:
    _BASE['threads'] = threading.active_count()
  obs = rmode.run_program(prog)
  if threading.active_count() > _BASE['threads'] + 4:
    rmode.settle_threads(_BASE['threads'])
  feats = progs.features(prog)
  r.classes = ['strict' if not x.unspecified else 'unspecified'] + ['has:' + f for f in sorted(feats) if ':' not in f]
  nt = nontrivial_classes(prog, x)
  r.classes += ['nt:' + c for c in nt]
  r.nontrivial = bool(nt)
  if obs.record is None:
    r.bad('C02/no-record', 'execute() raised %r' % (obs.exc,))
    return r
  died = [t for t in obs.thread_exceptions if 'TestExecutor' in t[0]]
  if died:
    r.bad('C02/executor-exception/%s@%s' % (died[0][1], died[0][3]),
          'the executor thread died with %s: %s; events=%r' % (died[0][1], died[0][2], obs.events))
    return r
  for sig, detail in group_invariants(prog, obs):
    r.bad('C02/' + sig, detail)
  if x.unspecified:
    return r
  for channel, cls, detail in diff.compare(x, obs, timeout_pids(prog)):
    r.bad('C02/%s/%s' % (channel, cls), detail)
  return r


def plan(tier, seed):
  jobs = []
  n = 600 if tier == 'quick' else 8000
  for i in range(16):
    jobs.append({'kind': 'hyp', 'name': 'hyp%d' % i, 'hseed': seed * 1000 + i, 'n': n, 'strict': i % 4 != 3})
  # (k, maxdepth, nshards-of-the-space, shards-to-run)
  if tier == 'quick':
    spaces = [(1, 2, 1, 'all'), (2, 1, 2, 'all'), (2, 2, 128, 16), (3, 1, 256, 16)]
  else:
    spaces = [(1, 2, 1, 'all'), (2, 1, 2, 'all'), (2, 2, 32, 'all'), (3, 1, 64, 'all'), (4, 1, 2048, 128)]
  for k, md, nsh, run in spaces:
    alphabet = [0, 1, 2, 3, 6, 7] if k == 4 else None
    which = range(nsh) if run == 'all' else [(seed * run + s) % nsh for s in range(run)]
    for s in which:
      jobs.append({'kind': 'enum', 'name': 'enum%d.%d.%d' % (k, md, s), 'k': k, 'maxdepth': md, 'shard': s,
                   'nshards': nsh, 'complete': run == 'all', 'alphabet': alphabet})
  # every small tree placed into every context (subtest after a failure, teardown of a failed-subtest group, ...)
  if tier == 'quick':
    ctx_spaces = [(1, 2, 1, 'all'), (2, 1, 64, 16)]
  else:
    ctx_spaces = [(1, 2, 1, 'all'), (2, 1, 16, 'all'), (2, 2, 512, 32)]
  for k, md, nsh, run in ctx_spaces:
    which = range(nsh) if run == 'all' else [(seed * run + s) % nsh for s in range(run)]
    for s in which:
      jobs.append({'kind': 'ctx', 'name': 'ctx%d.%d.%d' % (k, md, s), 'k': k, 'maxdepth': md, 'shard': s, 'nshards': nsh, 'complete': run == 'all'})
  # "a sequence stops at its first terminal node" has a clock in it as well: a node whose body returned in time is not
  # terminal, however late its thread is seen to exit (virtual-time engine of C12, stalls past the deadline)
  jobs.append({'kind': 'stall', 'name': 'stall'})
  return jobs


def run_job(job, acct):
  known = set(job.get('known', ()))
  if job['kind'] == '_regress':
    from vf import runner  # pylint: disable=g-import-not-at-top
    runner.run_regress(sys.modules[__name__], job, acct)
  elif job['kind'] == 'hyp':
    hyp.search(acct, progs.programs(strict=job['strict'], with_test_start=True), lambda p: check(p, job['strict']),
               seed=job['hseed'], max_examples=job['n'], known=known)
  elif job['kind'] == 'stall':
    from vf.props import c12  # pylint: disable=g-import-not-at-top
    c12.setup_lines()
    for t in (0.5, 3.0):
      for pos in ('alone', 'main', 'setup'):
        for kind in ('returns', 'late'):
          case = {'t': t, 'd': 0.0, 'kind': kind, 'pos': pos, 'rot': False}
          _, s0 = c12.check_timeout(dict(case, trace=True))
          for c2 in c12.stalled_variants(case, s0):
            r2, _ = c12.check_timeout(c2)
            acct.case({'stall': c2}, True, ['stall', 'pos:' + pos])
            for sig, detail in r2.violations:
              if sig in ('C12/timeout/false-timeout', 'C12/timeout/own-result-lost'):
                sig2 = 'C02/non-terminal-node-stopped-the-sequence'
                (acct.known if sig2 in known else acct.violation)(sig2, {'stall': c2}, detail)
  elif job['kind'] == 'ctx':
    for i, (cname, prog) in enumerate(progs.enumerate_in_contexts(job['k'], job['maxdepth'])):
      if i % job['nshards'] != job['shard']:
        continue
      r = check(prog)
      acct.case(prog, r.nontrivial, r.classes + ['ctx:' + cname])
      for sig, detail in r.violations:
        (acct.known if sig in known else acct.violation)(sig, prog, detail)
    if job['shard'] == 0 and job['complete']:
      acct.exhaustive_parts.append('all trees with k=%d leaves (depth<=%d) placed into each of %d contexts' % (job['k'], job['maxdepth'], len(progs.CONTEXTS)))
  elif job['kind'] == 'enum':
    n = 0
    for i, prog in enumerate(progs.enumerate_programs(job['k'], job['maxdepth'], job['alphabet'])):
      if i % job['nshards'] != job['shard']:
        continue
      n += 1
      r = check(prog)
      acct.case(prog, r.nontrivial, r.classes + ['enum-k%d' % job['k']])
      for sig, detail in r.violations:
        (acct.known if sig in known else acct.violation)(sig, prog, detail)
    if job['shard'] == 0 and job['complete']:
      acct.exhaustive_parts.append('all trees with k=%d leaves, nesting depth<=%d, over the %d-letter leaf alphabet x all shapes' % (
          job['k'], job['maxdepth'], len(job['alphabet'] or progs.LEAF_ALPHABET)))


def replay(case):
  if 'stall' in case:
    from vf.props import c12  # pylint: disable=g-import-not-at-top
    c12.setup_lines()
    return [('C02/non-terminal-node-stopped-the-sequence', d) for sig, d in c12.check_timeout(case['stall'])[0].violations
            if sig in ('C12/timeout/false-timeout', 'C12/timeout/own-result-lost')]
  return check(case).violations
