"""C01 - no false PASS; failure causes map to the documented outcome."""
import sys
import threading

from hypothesis import strategies as st

from vf import hyp
from vf import progs
from vf import rmode
from vf import spec
from vf.hyp import CaseResult

ID = 'C01'
LEVEL = 'exploration'
RULE = ('Programs drawn by the recursive Hypothesis strategy (free grammar: anything anywhere, incl. groups/subtests in '
        'teardowns, repeat_limit=0, raising run_if; and strict grammar) x settings of stop_on_first_failure (TestOptions '
        'or CONF), allow_unset_measurements, failure_exceptions, all PhaseOptions, test_start, test diagnosers; plus all '
        'small trees (k<=2 leaves) x {no option, stop_on_first_failure}.  Oracle (a) only-if: when execute() returns True or '
        'the outcome is PASS an audit of the run that uses no model must succeed (executor thread alive, no FAIL/ERROR '
        'record, no failed/unset measurement, no failure diagnosis, no failed subtest, not all SKIP, every declared phase '
        'ran or is excused by run_if / an untaken branch).  (b) converse, on programs the docs decide: outcome is in the '
        'set allowed by the reference interpreter and execute() == (outcome is PASS).  Non-trivial = the program '
        'contains a failure cause or a skip rule; distinct by canonical AST.')
ASSUMPTIONS = [
    'A branch recorded as not taken is accepted as an excuse (branch decisions themselves are checked by C02).',
    'Timeout phases use timeout_s=0 and a body that blocks until killed.',
]

_BASE = {'threads': None}


def failure_or_skip_causes(prog):
  f = progs.features(prog)
  causes = {x for x in f if x.startswith('end:') and x not in ('end:NONE', 'end:CONTINUE')}
  causes |= f & {'meas_fail', 'diag', 'tdiag', 'cp', 'branch', 'opt:run_if', 'opt:to', 'topt:sof', 'meas'}
  return causes


def audit_pass(prog, obs):
  """Model-free audit of a run that claims PASS. Returns [(sig, detail)]."""
  rec = obs.record
  v = []
  if obs.ret is True and rec['outcome'] != 'PASS':
    v.append(('C01/execute-true-but-outcome-%s' % rec['outcome'], 'execute() returned True with outcome %s' % rec['outcome']))
  if not (rec['outcome'] == 'PASS' or obs.ret is True):
    return v
  died = [t for t in obs.thread_exceptions if 'TestExecutor' in t[0]]
  if died:
    v.append(('C01/false-pass/executor-exception/%s@%s' % (died[0][1], died[0][3]),
              'PASS although the executor thread died with %s: %s' % (died[0][1], died[0][2])))
  gave_up = [e for e in obs.events if e[0] == 'user-code-exit']
  if gave_up:
    v.append(('C01/false-pass/user-code-called-sys-exit', 'PASS although %r raised SystemExit on the executor thread' % (gave_up[0][1:],)))
  o = prog['opts']
  for p in rec['phases']:
    if p['outcome'] in ('FAIL', 'ERROR'):
      v.append(('C01/false-pass/%s-record' % p['outcome'], 'PASS with phase record %s outcome %s result %s' % (p['name'], p['outcome'], p['result'])))
    if p['outcome'] != 'SKIP':
      for name, mo in p['meas'].items():
        if mo == 'FAIL' or mo == 'PARTIALLY_SET' or (mo == 'UNSET' and not o.get('allow_unset')):
          v.append(('C01/false-pass/measurement-%s' % mo, 'PASS with measurement %s %s in %s' % (name, mo, p['name'])))
  if any(d['fail'] for d in rec['diagnoses']):
    v.append(('C01/false-pass/failure-diagnosis', 'PASS with failure diagnoses %r' % (rec['diagnoses'],)))
  if any(s['outcome'] != 'PASS' for s in rec['subtests']):
    v.append(('C01/false-pass/failed-subtest', 'PASS with subtests %r' % (rec['subtests'],)))
  if rec['phases'] and all(p['outcome'] == 'SKIP' for p in rec['phases']):
    v.append(('C01/false-pass/all-skipped', 'PASS although every phase record is SKIP'))
  # every declared phase ran or is excused
  taken = {}
  for b in rec['branches']:
    taken.setdefault(b['name'], set()).add(b['taken'])
  ran = {e[1] for e in obs.events if e[0] == 'body'}
  recnames = {p['name'] for p in rec['phases']}

  def visit(nodes, excused):
    for n in nodes:
      t = n['t']
      if t == 'phase':
        if excused or n['o'].get('run_if') == 'F':
          continue
        pid = n['id']
        if 'p%d' % pid not in recnames or (pid not in ran and n['o'].get('to') is None):
          v.append(('C01/false-pass/declared-phase-never-ran', 'PASS although phase p%d has %s' % (
              pid, 'no record' if 'p%d' % pid not in recnames else 'a record but its body never ran')))
      elif t == 'branch':
        tk = taken.get('b%d' % n['id'])
        if tk is None and not excused:
          v.append(('C01/false-pass/branch-never-evaluated', 'PASS although branch b%d was never evaluated' % n['id']))
          visit(n['c'], True)
        else:
          visit(n['c'], excused or (tk is not None and True not in tk))
      else:
        for _, lst in progs.children_lists(n):
          visit(lst, excused)

  visit(prog['nodes'], False)
  ts = prog.get('test_start')
  if ts and ts.get('t') == 'phase' and ts['o'].get('run_if') != 'F' and 'p%d' % ts['id'] not in recnames:
    v.append(('C01/false-pass/declared-phase-never-ran', 'PASS although test_start has no record'))
  return v


def check(prog):
  r = CaseResult()
  x = spec.expect(prog)
  if _BASE['threads'] is None:
    _BASE['threads'] = threading.active_count()
  obs = rmode.run_program(prog)
  if threading.active_count() > _BASE['threads'] + 4:
    rmode.settle_threads(_BASE['threads'])
  causes = failure_or_skip_causes(prog)
  r.nontrivial = bool(causes)
  r.classes = ['specified' if not x.unspecified else 'unspecified'] + ['cause:' + c for c in sorted(causes)]
  if obs.exc is not None or obs.record is None:
    r.bad('C01/execute-raised/%s' % type(obs.exc).__name__, 'execute() raised %r' % (obs.exc,))
    return r
  r.classes.append('outcome:' + str(obs.record['outcome']))
  for sig, detail in audit_pass(prog, obs):
    r.bad(sig, detail)
  if obs.ret != (obs.record['outcome'] == 'PASS'):
    r.bad('C01/return-value', 'execute() returned %r with outcome %s' % (obs.ret, obs.record['outcome']))
  if not x.unspecified:
    got = obs.record['outcome']
    if got not in x.outcomes and not (got == 'PASS' and r.violations):  # a false PASS was already reported by the audit
      died = [t for t in obs.thread_exceptions if 'TestExecutor' in t[0]]
      extra = ('/executor-exception/%s@%s' % (died[0][1], died[0][3])) if died else ''
      r.bad('C01/outcome/expected-%s-got-%s%s' % ('|'.join(sorted(x.outcomes)), got, extra),
            'first terminal event %r; allowed outcomes %r; observed %s (details %r)' % (
                x.first_terminal, sorted(x.outcomes), got, obs.record['outcome_details']))
  return r


@st.composite
def with_unrenderable(draw, programs):
  """One program in twelve gets a phase that raises an exception whose str() raises (nothing can render it)."""
  prog = draw(programs)
  ph = progs.all_phases(prog)
  if ph and draw(st.integers(0, 11)) == 0:
    p = ph[draw(st.integers(0, len(ph) - 1))]
    if p['o'].get('to') != 0:
      p['s'][draw(st.integers(0, len(p['s']) - 1))]['end'] = 'RAISE_BADSTR'
  return prog


@st.composite
def with_unknown_node(draw, programs):
  """One program in twenty gets a node of a type the executor does not know, somewhere before its last top-level node."""
  prog = draw(programs)
  if len(prog['nodes']) >= 2 and draw(st.integers(0, 19)) == 0:
    prog['nodes'].insert(draw(st.integers(0, len(prog['nodes']) - 1)), {'t': 'custom', 'id': 9000})
  return prog


def plan(tier, seed):
  jobs = []
  n = 500 if tier == 'quick' else 9000
  for i in range(16):
    jobs.append({'kind': 'hyp', 'name': 'hyp%d' % i, 'hseed': seed * 1000 + i, 'n': n, 'strict': i % 2 == 0})
  spaces = [(1, 2, 1, 'all'), (2, 1, 4, 'all')] if tier == 'quick' else [(1, 2, 1, 'all'), (2, 1, 4, 'all'), (2, 2, 32, 'all'), (3, 1, 64, 16)]
  for k, md, nsh, run in spaces:
    which = range(nsh) if run == 'all' else [(seed * run + s) % nsh for s in range(run)]
    for s in which:
      jobs.append({'kind': 'enum', 'name': 'enum%d.%d.%d' % (k, md, s), 'k': k, 'maxdepth': md, 'shard': s, 'nshards': nsh,
                   'complete': run == 'all'})
  return jobs


def run_job(job, acct):
  known = set(job.get('known', ()))
  if job['kind'] == '_regress':
    from vf import runner  # pylint: disable=g-import-not-at-top
    runner.run_regress(sys.modules[__name__], job, acct)
  elif job['kind'] == 'hyp':
    hyp.search(acct, with_unknown_node(with_unrenderable(progs.programs(strict=job['strict'], with_test_start=True))), check,
               seed=job['hseed'], max_examples=job['n'], known=known)
  elif job['kind'] == 'enum':
    for i, base in enumerate(progs.enumerate_programs(job['k'], job['maxdepth'])):
      if i % job['nshards'] != job['shard']:
        continue
      for sof in (None, 'opt'):
        prog = dict(base, opts=dict(base['opts'], sof=sof))
        r = check(prog)
        acct.case(prog, r.nontrivial, r.classes + ['enum-k%d' % job['k']])
        for sig, detail in r.violations:
          (acct.known if sig in known else acct.violation)(sig, prog, detail)
    if job['shard'] == 0 and job['complete']:
      acct.exhaustive_parts.append('all trees with k=%d leaves, nesting depth<=%d, 10-letter alphabet x {default, stop_on_first_failure}' % (
          job['k'], job['maxdepth']))


def replay(case):
  return check(case).violations
