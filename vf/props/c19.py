"""C19 - log capture: every run log recorded once, in order, in its own run only; MAC redaction; no handler left."""
import logging
import os
import re
import sys
import threading
import time

from hypothesis import strategies as st

from vf import hyp
from vf import ohtf
from vf.hyp import CaseResult

ID = 'C19'
LEVEL = 'exploration'
RULE = ('(A) histories (<=30 ops) over the real logs API with up to 3 simultaneously active runs: start run (uid from the make_uid '
        'alphabet [0-9a-f:], one uid a strict prefix of another), log through the run\'s record logger / a phase logger / a plug '
        'logger (names with further dots) / get_record_logger_for(uid) / a framework logger under "openhtf", with generated levels '
        'and message shapes (%-args, single-dict args, non-string args and messages, unicode, MACs upper/lower case in the message, '
        'in str args, in dict args, in non-str args, split between message and argument, several per line, near-MACs), end run, '
        'log after the run ended.  Oracle = per-run list model: each emission appears exactly once, in emission order, only in '
        'the runs entitled to it, with level, logger name, source file, line number and a millisecond timestamp inside the call '
        'window; every properly delimited MAC is cut after its vendor prefix and the rest of the text is unchanged; after "end" '
        'the handler list is the baseline and the finished record no longer changes.  (B) real Tests: 1-2 tests executed '
        'concurrently in threads whose phases log through test.logger, plug loggers and get_record_logger_for(test.uid) with '
        'yields in between, and 1-3 consecutive runs followed by late logging.  (C) 2-3 runs that attach their record handler, log '
        'through their record logger and detach again, each in its own thread under the deterministic scheduler with every line of '
        'openhtf.util.logs a preemption point: ALL schedules with <=2 preemptions (2 runs) / <=1 (3 runs; thorough <=2); oracle: '
        'afterwards no RecordHandler is attached, every run holds exactly its own messages once and in order, a framework '
        'message logged afterwards changes no record.  Non-trivial = two live runs, or a message containing a MAC, or dict-style '
        'args, or (C) a schedule with an effective preemption; distinct by canonical case.  Uids include two with dots (host-name style); in a third of the histories every API call gets its own equal-but-distinct uid string.')
ASSUMPTIONS = ['MACs are generated delimited by spaces; near-MACs (5 or 7 octets) only have to be recorded, their text is not compared.',
               'Concurrency in (B) uses real threads with yields; the oracle is schedule independent.']

UIDS = ['4242:abcdef0123456789:0011223344556677:1700000000000', '4242:abcdef0123456789:0011223344556677:17000000000001',
        '77:00ff:aa:5', '77:00ff:aa:55',
        # uids are opaque to the logs API; a station that builds them from a host name hands in dots
        'st1.example.com:77:00ff:aa:5', '77:00ff:aa:5.1']
MAC_RE = re.compile(r'(?<![0-9A-Za-z:])((?:[0-9A-Fa-f]{2}:){3})(?:[0-9A-Fa-f]{2}:){2}[0-9A-Fa-f]{2}(?![0-9A-Za-z:])')


def redact(text):
  return MAC_RE.sub(lambda m: m.group(1) + '<REDACTED>', text)


class Obj(object):
  def __init__(self, s):
    self.s = s

  def __str__(self):
    return self.s


MACS = ['aa:bb:cc:dd:ee:ff', 'AA:BB:CC:DD:EE:FF', '00:1a:2B:3c:4D:5e', 'f8:8f:ca:12:34:56']


def make_message(shape, n, mac_i):
  """Returns (msg, args, formatted text, has_mac, compare_text)."""
  mac = MACS[mac_i % len(MACS)]
  mac2 = MACS[(mac_i + 1) % len(MACS)]
  if shape == 'plain':
    return 'hello %d' % n, (), 'hello %d' % n, False, True
  if shape == 'args':
    return 'value %s and %d [' + str(n) + ']', ('x', 5), 'value x and 5 [%d]' % n, False, True
  if shape == 'dict':
    return 'dict %(a)s %(b)d #' + str(n), ({'a': 'v', 'b': 7},), 'dict v 7 #%d' % n, False, True
  if shape == 'nonstr-arg':
    return 'obj %s #' + str(n), (Obj('OBJ'),), 'obj OBJ #%d' % n, False, True
  if shape == 'unicode':
    return u'h\xe9llo ✓ %d' % n, (), u'h\xe9llo ✓ %d' % n, False, True
  if shape == 'percent-noargs':
    return '100%% done %d' % n, (), '100%% done %d' % n, False, True
  if shape == 'nonstr-msg':
    return 1000 + n, (), str(1000 + n), False, True
  if shape == 'mac-msg':
    t = 'dev %s up #%d' % (mac, n)
    return t, (), t, True, True
  if shape == 'mac-arg':
    return 'dev %s up #' + str(n), (mac,), 'dev %s up #%d' % (mac, n), True, True
  if shape == 'mac-two':
    return 'a %s b ' + mac2 + ' #' + str(n), (mac,), 'a %s b %s #%d' % (mac, mac2, n), True, True
  if shape == 'mac-dict':
    return 'dev %(m)s #' + str(n), ({'m': mac},), 'dev %s #%d' % (mac, n), True, True
  if shape == 'mac-dict-positional':
    return 'cfg %s #' + str(n), ({'m': mac},), 'cfg %s #%d' % ({'m': mac}, n), True, False  # repr of a dict: MAC inside quotes, not delimited by spaces
  if shape == 'mac-nonstr-arg':
    return 'dev %s up #' + str(n), (Obj(mac),), 'dev %s up #%d' % (mac, n), True, True
  if shape == 'mac-split':
    return 'dev ' + mac[:9] + '%s up #' + str(n), (mac[9:],), 'dev %s up #%d' % (mac, n), True, True
  if shape == 'malformed-type':      # arguments that do not fit the format string: logging reports, never raises
    return 'count %d #' + str(n), ('x',), None, False, False
  if shape == 'malformed-count':
    return 'a %s b %s #' + str(n), ('only-one',), None, False, False
  if shape == 'malformed-mac':
    return 'dev %s %d #' + str(n), (mac,), None, False, False
  if shape == 'near-mac':
    t = 'short %s long %s:99 #%d' % (mac[:14], mac, n)
    return t, (), t, False, False
  raise ValueError(shape)


SHAPES = ['plain', 'args', 'dict', 'nonstr-arg', 'unicode', 'percent-noargs', 'nonstr-msg', 'mac-msg', 'mac-arg', 'mac-two', 'mac-dict',
          'mac-dict-positional', 'mac-nonstr-arg', 'mac-split', 'near-mac', 'malformed-type', 'malformed-count', 'malformed-mac']
# 5 and 25 are custom numeric levels (TRACE / NOTICE as device libraries define them); levels below the effective level
# of the logger are enabled on the logger object that is used for the call
LEVELS = [logging.DEBUG, logging.INFO, logging.WARNING, logging.ERROR, logging.CRITICAL, 5, 25, 1]


# the convenience methods of a logger, by level (warn / fatal are the old aliases plugs written years ago still call)
NAMED = {logging.DEBUG: ['debug'], logging.INFO: ['info'], logging.WARNING: ['warning', 'warn'], logging.ERROR: ['error'],
         logging.CRITICAL: ['critical', 'fatal']}


def emit(logger, level, msg, args, via=0):
  if level < logging.DEBUG:
    logger.setLevel(1)
  names = NAMED.get(level) if via else None
  if names:
    import warnings  # pylint: disable=g-import-not-at-top
    with warnings.catch_warnings():
      warnings.simplefilter('ignore')       # Logger.warn() announces its deprecation
      getattr(logger, names[(via - 1) % len(names)])(msg, *args)  # EMIT-LINE-NAMED
    return 'named'
  logger.log(level, msg, *args)  # EMIT-LINE
  return 'log'


def _emit_lineno(marker='EMIT-LINE'):
  import inspect  # pylint: disable=g-import-not-at-top
  src, start = inspect.getsourcelines(emit)
  for i, l in enumerate(src):
    if l.rstrip().endswith('# ' + marker):
      return start + i
  return None


def check_history(case):
  r = CaseResult()
  ohtf.reset_case()
  from openhtf.util import logs  # pylint: disable=g-import-not-at-top
  from openhtf.core import test_record  # pylint: disable=g-import-not-at-top
  base_logger = logging.getLogger('openhtf')
  base_logger.setLevel(logging.DEBUG)
  baseline = list(base_logger.handlers)
  linenos = {'log': _emit_lineno(), 'named': _emit_lineno('EMIT-LINE-NAMED')}
  runs = {}      # run idx -> dict(uid, rec, expected[], live, notified)
  flags = {'two_live': False, 'mac': False, 'dictargs': False}
  # 'uidcopy': every API call gets its own, equal string object (a uid that travelled through a queue, JSON or a format call)
  same = (lambda u: (u + ' ')[:-1]) if case.get('uidcopy') else (lambda u: u)
  if case.get('uidcopy'):
    flags['uidcopy'] = True
  n = 0
  try:
    for k, op in enumerate(case['ops']):
      kind = op[0]
      ri = op[1] % len(UIDS)
      if kind == 'start':
        if ri in runs:
          continue
        rec = test_record.TestRecord(dut_id='d', station_id='s')
        st_ = {'uid': UIDS[ri], 'rec': rec, 'expected': [], 'live': True, 'notified': [0]}
        logs.initialize_record_handler(same(st_['uid']), rec, lambda st_=st_: st_['notified'].__setitem__(0, st_['notified'][0] + 1))
        runs[ri] = st_
        if len([x for x in runs.values() if x['live']]) >= 2:
          flags['two_live'] = True
      elif kind == 'end':
        st_ = runs.get(ri)
        if st_ is None or not st_['live']:
          continue
        logs.remove_record_handler(same(st_['uid']))
        st_['live'] = False
        st_['final_len'] = len(st_['rec'].log_records)
      elif kind == 'log':
        st_ = runs.get(ri)
        lk = op[2]
        uid = UIDS[ri]
        if lk == 'framework':
          logger = logging.getLogger('openhtf.core.vfcheck')
          name = 'openhtf.core.vfcheck'
          targets = [x for x in runs.values() if x['live']]
        else:
          root = logs.get_record_logger_for(same(uid))
          if '.' in uid:
            flags['dotted-uid'] = True
          suffix = {'record': None, 'phase': 'phase.my_phase', 'phase-dots': 'phase.a.b.c', 'plug': 'plug.MyPlug', 'deep': 'phase.p.sub.' + uid.replace(':', '_')}[lk]
          logger = root if suffix is None else root.getChild(suffix)
          name = 'openhtf.test_record.' + uid + ('' if suffix is None else '.' + suffix)
          targets = [st_] if (st_ is not None and st_['live']) else []
        n += 1
        msg, args, text, has_mac, compare = make_message(op[4], n, op[5])
        if has_mac:
          flags['mac'] = True
        if op[4] in ('dict', 'mac-dict', 'mac-dict-positional'):
          flags['dictargs'] = True
        t0 = int(time.time() * 1000)
        saved_raise = logging.raiseExceptions
        if text is None:
          logging.raiseExceptions = False    # keep "--- Logging error ---" off stderr; emit() swallows either way
          flags['malformed'] = True
        try:
          how = emit(logger, op[3], msg, args, op[6] if len(op) > 6 else 0)
        except Exception as e:  # pylint: disable=broad-except
          r.bad('C19/log-call-raised/%s/%s' % (op[4], type(e).__name__), 'op %d: logging %r %% %r through %s raised %r (live runs: %d)' % (
              k, msg, args, name, e, len([x for x in runs.values() if x['live']])))
        finally:
          logging.raiseExceptions = saved_raise
        t1 = int(time.time() * 1000) + 1
        if text is None:
          continue      # nothing can be recorded for a message that cannot be formatted; the call must just not raise
        for tg in targets:
          tg['expected'].append({'how': how, 'level': op[3], 'name': name, 'text': redact(text), 'raw': text, 'compare': compare, 'has_mac': has_mac,
                                 't0': t0, 't1': t1, 'shape': op[4], 'n': n})
  finally:
    for st_ in runs.values():
      if st_['live']:
        logs.remove_record_handler(same(st_['uid']))
  # ---- compare
  for ri, st_ in sorted(runs.items()):
    got = list(st_['rec'].log_records)
    exp = st_['expected']
    if 'final_len' in st_ and len(got) != st_['final_len']:
      r.bad('C19/finished-record-altered', 'run %d: %d records at end of run, %d now' % (ri, st_['final_len'], len(got)))
    # match in order by the sequence number embedded in the text
    def seq_of(message):
      m = re.search(r'(?:#|hello |done |✓ )(\d+)$', message) or re.search(r'\[(\d+)\]$', message)
      if m:
        return int(m.group(1))
      if message.isdigit():
        return int(message) - 1000
      return None
    gi = 0
    for e in exp:
      # find this emission in got (by sequence number)
      idxs = [i for i, g in enumerate(got) if seq_of(g.message) == e['n']]
      if not idxs:
        r.bad('C19/record-missing/%s' % e['shape'], 'run %d: emission #%d (%s via %s) not in log_records; expected text %r' % (ri, e['n'], e['shape'], e['name'], e['text']))
        continue
      if len(idxs) > 1:
        r.bad('C19/record-duplicated/%s' % e['shape'], 'run %d: emission #%d recorded %d times' % (ri, e['n'], len(idxs)))
      i = idxs[0]
      if i < gi:
        r.bad('C19/order', 'run %d: emission #%d recorded before an earlier one' % (ri, e['n']))
      gi = max(gi, i)
      g = got[i]
      if g.level != e['level'] or g.logger_name != e['name']:
        r.bad('C19/level-or-name', 'run %d #%d: level %r name %r, expected %r %r' % (ri, e['n'], g.level, g.logger_name, e['level'], e['name']))
      lineno = linenos[e.get('how', 'log')]
      if g.source != os.path.basename(__file__) or g.lineno != lineno:
        r.bad('C19/source-location', 'run %d #%d (%s): %s:%s expected %s:%s' % (ri, e['n'], e.get('how'), g.source, g.lineno, os.path.basename(__file__), lineno))
      if not (e['t0'] - 1 <= g.timestamp_millis <= e['t1'] + 1):
        r.bad('C19/timestamp', 'run %d #%d: %r not in [%r, %r]' % (ri, e['n'], g.timestamp_millis, e['t0'], e['t1']))
      if e['compare'] and g.message != e['text']:
        if e['has_mac'] and any(m[9:] in g.message for m in MACS if m in e['raw']):
          r.bad('C19/mac-not-redacted/%s' % e['shape'], 'run %d #%d: recorded %r, expected %r' % (ri, e['n'], g.message, e['text']))
        else:
          r.bad('C19/message-altered/%s' % e['shape'], 'run %d #%d: recorded %r, expected %r' % (ri, e['n'], g.message, e['text']))
      elif not e['compare'] and e['has_mac'] and any(m[9:] in g.message for m in MACS if m in e['raw']):
        r.bad('C19/mac-not-redacted/%s' % e['shape'], 'run %d #%d: recorded %r' % (ri, e['n'], g.message))
    expected_ns = {e['n'] for e in exp}
    for g in got:
      sn = seq_of(g.message)
      if sn is not None and sn not in expected_ns and g.logger_name.startswith('openhtf'):
        if g.logger_name.startswith('openhtf.test_record.') or g.logger_name == 'openhtf.core.vfcheck':
          r.bad('C19/foreign-record', 'run %d holds a record it is not entitled to: %r via %s' % (ri, g.message, g.logger_name))
  if [type(h) for h in base_logger.handlers] != [type(h) for h in baseline]:
    r.bad('C19/handler-left', 'handlers now %r' % ([type(h).__name__ for h in base_logger.handlers],))
    base_logger.handlers[:] = baseline
  r.nontrivial = any(flags.values())
  r.classes = ['A'] + [k for k, v in flags.items() if v]
  return r


@st.composite
def histories(draw):
  n = draw(st.integers(3, 30))
  nu = len(UIDS) - 1
  ops = [['start', draw(st.integers(0, nu))]]
  for _ in range(n):
    kind = draw(st.sampled_from(['start', 'log', 'log', 'log', 'log', 'log', 'end']))
    if kind == 'log':
      ops.append(['log', draw(st.integers(0, nu)), draw(st.sampled_from(['record', 'phase', 'phase-dots', 'plug', 'deep', 'framework'])),
                  draw(st.sampled_from(LEVELS)), draw(st.sampled_from(SHAPES)), draw(st.integers(0, 3)), draw(st.sampled_from([0, 0, 1, 2]))])
    else:
      ops.append([kind, draw(st.integers(0, nu))])
  return {'ops': ops, 'uidcopy': draw(st.sampled_from([False, False, True]))}


# ------------------------------------------------------------------ part B: real tests
def check_real(case):
  """case = {'tests': [[phase spec...], ...], 'consecutive': n, 'late': bool}; phase spec = [n_logs, via]"""
  r = CaseResult()
  # the station's identity as configured (by default the host name, which may well be a fully qualified one)
  htf = ohtf.reset_case(**({'station_id': case['station_id']} if case.get('station_id') else {}))
  base_logger = logging.getLogger('openhtf')
  base_logger.setLevel(logging.DEBUG)
  baseline = [type(h) for h in base_logger.handlers]
  from openhtf.util import logs  # pylint: disable=g-import-not-at-top

  class LogPlug(htf.plugs.BasePlug):
    def say(self, text):
      self.logger.info(text)

  results = {}
  late_loggers = {}

  def mk_test(ti, spec):
    sent = []
    holder = {}

    def mk_phase(pi, n_logs, via):
      def body(test, lp):
        for j in range(n_logs):
          text = 'T%d.p%d.m%d' % (ti, pi, j)
          sent.append(text)
          if via == 'test':
            test.logger.warning(text)
          elif via == 'plug':
            lp.say(text)
          else:
            logs.get_record_logger_for(holder['test'].uid).error(text)
          time.sleep(0)
        late_loggers[ti] = test.logger
      body.__name__ = 'p%d' % pi
      return htf.plug(lp=LogPlug)(body)

    t = htf.Test(*[mk_phase(pi, nl, via) for pi, (nl, via) in enumerate(spec)])
    holder['test'] = t
    recs = []
    t.add_output_callbacks(recs.append)
    return t, sent, recs

  built = [mk_test(ti, spec) for ti, spec in enumerate(case['tests'])]
  for run in range(case['consecutive']):
    for _, sent, _ in built:
      del sent[:]
    ths = [threading.Thread(target=b[0].execute) for b in built]
    for th in ths:
      th.start()
    for th in ths:
      th.join(60)
    for ti, (t, sent, recs) in enumerate(built):
      if len(recs) != run + 1:
        r.bad('C19/real/no-record', 'test %d run %d' % (ti, run))
        continue
      msgs = [l.message for l in recs[-1].log_records]
      mine = [m for m in msgs if re.match(r'T\d+\.p\d+\.m\d+$', m)]
      if mine != sent:
        foreign = [m for m in mine if not m.startswith('T%d.' % ti)]
        if foreign:
          r.bad('C19/real/foreign-record', 'test %d run %d recorded %r' % (ti, run, foreign[:3]))
        elif sorted(mine) != sorted(sent):
          r.bad('C19/real/%s' % ('record-missing' if len(mine) < len(sent) else 'record-duplicated'), 'test %d run %d: recorded %r, sent %r' % (ti, run, mine, sent))
        else:
          r.bad('C19/real/order', 'test %d run %d: recorded %r, sent %r' % (ti, run, mine, sent))
      results.setdefault(ti, []).append(len(recs[-1].log_records))
  if [type(h) for h in base_logger.handlers] != baseline:
    r.bad('C19/real/handler-left', 'handlers %r after %d runs' % ([type(h).__name__ for h in base_logger.handlers], case['consecutive']))
  if case.get('late'):
    for ti, lg in late_loggers.items():
      before = len(built[ti][2][-1].log_records)
      lg.info('late message after the run')
      logging.getLogger('openhtf.late').warning('late framework message')
      if len(built[ti][2][-1].log_records) != before:
        r.bad('C19/real/finished-record-altered', 'test %d: late logging added %d records' % (ti, len(built[ti][2][-1].log_records) - before))
  r.nontrivial = len(case['tests']) >= 2 or case['consecutive'] >= 2
  r.classes = ['B', 'tests:%d' % len(case['tests']), 'runs:%d' % case['consecutive']]
  return r


@st.composite
def real_cases(draw):
  nt = draw(st.integers(1, 2))
  tests = [[[draw(st.integers(1, 4)), draw(st.sampled_from(['test', 'plug', 'uid']))] for _ in range(draw(st.integers(1, 3)))] for _ in range(nt)]
  return {'tests': tests, 'consecutive': draw(st.integers(1, 3)), 'late': draw(st.booleans()),
          'station_id': draw(st.sampled_from([None, None, 'bench7', 'bench7.lab.example.com', 'st:7', 'a.b']))}


# ------------------------------------------------------------------ (C) runs starting/logging/ending concurrently, scheduled
_SCHED = {'ready': False}


def check_sched(case):
  """case = {'slots': n, 'msgs': k, 'plan': {yield index: thread choice}}.

  n runs share the "openhtf" logger exactly as TestState does it: initialize_record_handler at start, messages through the
  run's record logger, remove_record_handler at the end - each in its own thread, under the deterministic scheduler with
  line-granular preemption inside openhtf.util.logs.
  """
  from vf import vmode  # pylint: disable=g-import-not-at-top
  from vf import vsched as V  # pylint: disable=g-import-not-at-top
  import threading as real_threading  # pylint: disable=g-import-not-at-top
  r = CaseResult()
  vmode.setup()
  from openhtf.core import test_record  # pylint: disable=g-import-not-at-top
  from openhtf.util import logs  # pylint: disable=g-import-not-at-top
  if not _SCHED['ready']:
    V.install_proxies([logging])    # handler locks created by scheduled threads become scheduler-aware
    _SCHED['ready'] = True
  V.monitor_lines(V.code_objects_of(logs.initialize_record_handler, logs.remove_record_handler, logs.get_record_logger_for,
                                    logs.RecordHandler, logs.TestUidFilter))
  htf_logger = logging.getLogger('openhtf')
  saved_level = htf_logger.level
  htf_logger.setLevel(logging.DEBUG)
  n, k = case['slots'], case['msgs']
  plan = {int(a): b for a, b in (case.get('plan') or {}).items()}

  def fn(s):
    recs = [test_record.TestRecord(dut_id='D%d' % i, station_id='st') for i in range(n)]
    uids = ['uid-%d-%s' % (i, 'abc'[i]) for i in range(n)]
    errs = []

    def slot(i):
      try:
        logs.initialize_record_handler(uids[i], recs[i], lambda: None)
        lg = logs.get_record_logger_for(uids[i])
        for j in range(k):
          lg.info('slot %d message %d', i, j)
        logs.remove_record_handler(uids[i])
      except Exception as e:  # pylint: disable=broad-except
        errs.append(repr(e))

    ths = []
    for i in range(n):
      t = real_threading.Thread(target=slot, args=(i,), name='slot%d' % i)
      t.daemon = True
      t.start()
      ths.append(t)
    for t in ths:
      t.join()
    left = [h.test_uid for h in htf_logger.handlers if isinstance(h, logs.RecordHandler)]
    before = [[l.message for l in rec.log_records] for rec in recs]
    logging.getLogger('openhtf.core.late').warning('logged after every run has ended')
    after = [[l.message for l in rec.log_records] for rec in recs]
    htf_logger.handlers[:] = [h for h in htf_logger.handlers if not isinstance(h, logs.RecordHandler)]
    return left, before, after, errs

  try:
    s = V.Scheduler(plan=plan, time_limit=1e4, max_steps=100000)

    def main():
      with V.module_locks(logs):
        return fn(s)

    res, exc = s.run(main, watchdog_s=15.0)
  finally:
    htf_logger.setLevel(saved_level)
    htf_logger.handlers[:] = [h for h in htf_logger.handlers if not isinstance(h, logs.RecordHandler)]
  if s.failure is not None:
    if s.failure[0] in ('deadlock', 'steplimit'):
      r.bad('C19/sched/hang', s.failure[1][:300])
      return r, s
    raise RuntimeError('scheduler failure %r' % (s.failure,))
  if exc is not None:
    raise exc
  left, before, after, errs = res
  tag = 'slots=%d msgs=%d plan=%r' % (n, k, case.get('plan'))
  if errs:
    r.bad('C19/sched/raised', '%s: %s' % (tag, errs[0]))
  if left:
    r.bad('C19/sched/handler-remains-after-end', '%s: record handlers of %r still attached after every run ended' % (tag, left))
  for i in range(n):
    want = ['slot %d message %d' % (i, j) for j in range(k)]
    own = [m for m in before[i] if m.startswith('slot ')]
    if own != want:
      foreign = [m for m in own if not m.startswith('slot %d ' % i)]
      r.bad('C19/sched/%s' % ('foreign-message' if foreign else 'lost-or-duplicated-message'),
            '%s: run %d logged %r through its record logger, its record holds %r' % (tag, i, want, own))
      break
  if before != after and not left:
    r.bad('C19/sched/finished-record-altered', '%s: %r -> %r' % (tag, before, after))
  r.nontrivial = bool(s.effective_preemptions)
  r.classes = ['sched', 'slots:%d' % n, 'msgs:%d' % k, 'preemptions:%d' % min(len(s.effective_preemptions), 3)]
  return r, s





def check_shared_record(case):
  """case = {'sharedrec': n_threads, 'msgs': k, 'plan': {...}}: the threads of ONE run (phase thread, a plug's background
  thread, a monitor) log through the run's loggers at the same time.  Every message is in the record once, each thread's
  messages in its own order, and the record's cached base-type view lists the same messages in the same order as the
  record itself."""
  from vf import vmode  # pylint: disable=g-import-not-at-top
  from vf import vsched as V  # pylint: disable=g-import-not-at-top
  import threading as real_threading  # pylint: disable=g-import-not-at-top
  r = CaseResult()
  vmode.setup()
  from openhtf.core import test_record  # pylint: disable=g-import-not-at-top
  from openhtf.util import logs  # pylint: disable=g-import-not-at-top
  if not _SCHED['ready']:
    V.install_proxies([logging])
    _SCHED['ready'] = True
  V.monitor_lines(V.code_objects_of(logs.initialize_record_handler, logs.remove_record_handler, logs.get_record_logger_for,
                                    logs.RecordHandler, logs.TestUidFilter, test_record.TestRecord.add_log_record))
  htf_logger = logging.getLogger('openhtf')
  saved_level = htf_logger.level
  htf_logger.setLevel(logging.DEBUG)
  n, k = case['sharedrec'], case['msgs']
  plan = {int(a): b for a, b in (case.get('plan') or {}).items()}

  def fn(s):
    rec = test_record.TestRecord(dut_id='D', station_id='st')
    uid = 'uid-shared-x'
    logs.initialize_record_handler(uid, rec, lambda: None)
    root = logs.get_record_logger_for(uid)
    loggers = [root.getChild('phase.p'), root.getChild('plug.Helper'), root][:n]
    errs = []

    def worker(i):
      try:
        for j in range(k):
          loggers[i].info('thread %d message %d', i, j)
      except Exception as e:  # pylint: disable=broad-except
        errs.append(repr(e))

    ths = [real_threading.Thread(target=worker, args=(i,), name='logger%d' % i) for i in range(n)]
    for t in ths:
      t.daemon = True
      t.start()
    for t in ths:
      t.join()
    logs.remove_record_handler(uid)
    return [l.message for l in rec.log_records], [d['message'] for d in rec.as_base_types()['log_records']], errs

  try:
    s = V.Scheduler(plan=plan, time_limit=1e4, max_steps=100000)

    def main():
      with V.module_locks(logs):
        return fn(s)

    res, exc = s.run(main, watchdog_s=15.0)
  finally:
    htf_logger.setLevel(saved_level)
    htf_logger.handlers[:] = [h for h in htf_logger.handlers if not isinstance(h, logs.RecordHandler)]
  r.nontrivial = bool(s.effective_preemptions)
  r.classes = ['shared-record', 'threads:%d' % n, 'msgs:%d' % k, 'preemptions:%d' % min(len(s.effective_preemptions), 3)]
  if s.failure is not None:
    if s.failure[0] in ('deadlock', 'steplimit'):
      r.bad('C19/shared-record/hang', s.failure[1][:300])
      return r, s
    raise RuntimeError('scheduler failure %r' % (s.failure,))
  if exc is not None:
    raise exc
  in_record, in_view, errs = res
  tag = 'threads=%d msgs=%d plan=%r' % (n, k, case.get('plan'))
  if errs:
    r.bad('C19/shared-record/raised', '%s: %s' % (tag, errs[0]))
  for i in range(n):
    want = ['thread %d message %d' % (i, j) for j in range(k)]
    if [m for m in in_record if m.startswith('thread %d ' % i)] != want:
      r.bad('C19/shared-record/lost-duplicated-or-reordered', '%s: thread %d logged %r, the record holds %r' % (tag, i, want, in_record))
      break
  if in_view != in_record:
    r.bad('C19/shared-record/view-differs-from-record', '%s: record %r, serialized view %r' % (tag, in_record, in_view))
  return r, s



# ------------------------------------------------------------------ levels changed while the run's loggers are in use
LOGGER_KEYS = ['record', 'phase', 'plug', 'framework']


def check_levels(case):
  """case = {'levelops': [['level', which, L] | ['disable', L] | ['log', which, v], ...]}: one run whose loggers are kept (as
  test.logger, a plug's self.logger and the state logger are) while their levels, the level of the "openhtf" logger and
  logging.disable() change in between.  A message is recorded exactly if it passes the levels in force when it is logged."""
  r = CaseResult()
  ohtf.reset_case()
  from openhtf.util import logs  # pylint: disable=g-import-not-at-top
  from openhtf.core import test_record  # pylint: disable=g-import-not-at-top
  base = logging.getLogger('openhtf')
  base.setLevel(logging.DEBUG)
  uid = UIDS[1]
  rec = test_record.TestRecord(dut_id='d', station_id='s')
  logs.initialize_record_handler(uid, rec, lambda: None)
  root = logs.get_record_logger_for(uid)
  objs = {'record': root, 'phase': root.getChild('phase.p'), 'plug': root.getChild('plug.P'), 'framework': logging.getLogger('openhtf.core.vfcheck_levels')}
  parent = {'record': 'openhtf', 'phase': 'record', 'plug': 'record', 'framework': 'openhtf'}
  level = {'record': 0, 'phase': 0, 'plug': 0, 'framework': 0, 'openhtf': logging.DEBUG}
  disabled = 0
  expected = []
  changed_after_use = False
  used = set()

  def effective(k):
    while level[k] == 0:
      k = parent[k]
    return level[k]

  n = 0
  try:
    for op in case['levelops']:
      if op[0] == 'level':
        k = LOGGER_KEYS[op[1] % len(LOGGER_KEYS)] if op[1] < 4 else 'openhtf'
        (base if k == 'openhtf' else objs[k]).setLevel(op[2] if not (k == 'openhtf' and op[2] == 0) else logging.DEBUG)
        level[k] = op[2] if not (k == 'openhtf' and op[2] == 0) else logging.DEBUG
        if k in used or k == 'openhtf':
          changed_after_use = True
      elif op[0] == 'disable':
        logging.disable(op[1])
        disabled = op[1]
        changed_after_use = changed_after_use or bool(used)
      else:
        k = LOGGER_KEYS[op[1] % len(LOGGER_KEYS)]
        n += 1
        objs[k].log(op[2], 'levels message #%d', n)
        used.add(k)
        if op[2] > disabled and op[2] >= effective(k):
          expected.append(n)
  finally:
    logging.disable(logging.NOTSET)
    base.setLevel(logging.DEBUG)
    objs['framework'].setLevel(logging.NOTSET)
    logs.remove_record_handler(uid)
  got = [int(l.message.rsplit('#', 1)[1]) for l in rec.log_records if l.message.startswith('levels message #')]
  r.nontrivial = changed_after_use
  r.classes = ['levels', 'changed-after-use' if changed_after_use else 'static']
  if got != expected:
    missing = [x for x in expected if x not in got]
    extra = [x for x in got if x not in expected]
    r.bad('C19/levels/%s' % ('message-not-recorded' if missing else 'message-recorded-against-level' if extra else 'order'),
          'ops %r: recorded %r, expected %r (missing %r, unexpected %r)' % (case['levelops'], got, expected, missing, extra))
  return r


@st.composite
def level_cases(draw):
  ops = []
  for _ in range(draw(st.integers(2, 12))):
    kind = draw(st.sampled_from(['log', 'log', 'log', 'level', 'level', 'disable']))
    if kind == 'log':
      ops.append(['log', draw(st.integers(0, 3)), draw(st.sampled_from([10, 20, 30, 40, 50]))])
    elif kind == 'level':
      ops.append(['level', draw(st.integers(0, 4)), draw(st.sampled_from([0, 10, 20, 30, 50]))])
    else:
      ops.append(['disable', draw(st.sampled_from([0, 0, 10, 20, 40]))])
  return {'levelops': ops}


# ------------------------------------------------------------------ MAC addresses outside the message proper
EXC_MAC_CASES = [{'excmac': where, 'mac': i, 'logger': lk} for where in ('exception-text', 'exception-arg', 'stack-info-caller', 'chained-cause')
                 for i in range(len(MACS)) for lk in ('record', 'phase', 'framework')]


def check_exc_mac(case):
  """A captured message is everything that ends up in LogRecord.message: also the traceback that logger.exception() /
  exc_info=True appends.  A MAC address in the exception text is redacted there as anywhere else."""
  r = CaseResult()
  ohtf.reset_case()
  from openhtf.util import logs  # pylint: disable=g-import-not-at-top
  from openhtf.core import test_record  # pylint: disable=g-import-not-at-top
  logging.getLogger('openhtf').setLevel(logging.DEBUG)
  mac = MACS[case['mac']]
  uid = UIDS[0]
  rec = test_record.TestRecord(dut_id='d', station_id='s')
  logs.initialize_record_handler(uid, rec, lambda: None)
  try:
    root = logs.get_record_logger_for(uid)
    logger = {'record': root, 'phase': root.getChild('phase.my_phase'), 'framework': logging.getLogger('openhtf.core.vfcheck')}[case['logger']]
    where = case['excmac']
    try:
      try:
        if where == 'exception-arg':
          raise KeyError(mac)
        raise ValueError('device %s unreachable' % mac)
      except ValueError as e:
        if where == 'chained-cause':
          raise RuntimeError('lookup failed') from e
        raise
    except Exception:  # pylint: disable=broad-except
      if where == 'stack-info-caller':
        logger.error('lookup failed', exc_info=True, stack_info=True)
      else:
        logger.exception('lookup failed')
  finally:
    logs.remove_record_handler(uid)
  r.nontrivial = True
  r.classes = ['exc-mac', 'where:' + case['excmac'], 'logger:' + case['logger']]
  msgs = [l.message for l in rec.log_records]
  if len(msgs) != 1:
    r.bad('C19/exc-mac/not-recorded-once', '%r: %d records' % (case, len(msgs)))
    return r
  m = msgs[0]
  if MAC_RE.search(m):
    r.bad('C19/mac-not-redacted/in-traceback', '%r: the captured message contains the full address %s: ...%s' % (case, mac, m[-120:]))
  elif (mac[:9] + '<REDACTED>').lower() not in m.lower():
    r.bad('C19/exc-mac/vendor-prefix-lost', '%r: ...%s' % (case, m[-120:]))
  if 'lookup failed' not in m or ('ValueError' not in m and 'KeyError' not in m):
    r.bad('C19/exc-mac/traceback-lost', '%r: %r' % (case, m[-200:]))
  return r


# ------------------------------------------------------------------ the process-wide CLI options (-v, -vv, --quiet)
VERBOSITY_CASES = [{'verbosity': v, 'quiet': q_} for v in (0, 1, 2, 3) for q_ in (False, True)]


def check_verbosity(case):
  import json as _json  # pylint: disable=g-import-not-at-top
  import os as _os  # pylint: disable=g-import-not-at-top
  import subprocess  # pylint: disable=g-import-not-at-top
  r = CaseResult()
  env = dict(_os.environ, VF_VERBOSITY=str(case['verbosity']), VF_QUIET='1' if case['quiet'] else '0', PYTHONHASHSEED='0')
  child = _os.path.join(_os.path.dirname(_os.path.abspath(__file__)), 'c19_child.py')
  p = subprocess.run([sys.executable, child], env=env, stdout=subprocess.PIPE, stderr=subprocess.PIPE, text=True, timeout=120)
  r.nontrivial = case['verbosity'] > 0 or case['quiet']
  r.classes = ['cli-options', 'verbosity:%d' % case['verbosity'], 'quiet:%s' % case['quiet']]
  last = [l for l in p.stdout.splitlines() if l.startswith('{')]
  if p.returncode != 0 or not last:
    raise RuntimeError('verbosity child failed: rc=%s\n%s' % (p.returncode, p.stderr[-800:]))
  out = _json.loads(last[-1])
  if out['outcome'] != 'PASS':
    raise RuntimeError('verbosity child: outcome %s' % out['outcome'])
  for kind, text in (('phase', 'phase message at level %d'), ('plug', 'plug message at level %d'), ('state', 'state message at level %d'),
                     ('vf_probe', 'framework message at level %d')):
    want = [[lv, text % lv] for lv in (10, 15, 20, 25, 30, 40, 50)]
    got = [[lv, msg] for lv, k, msg in out['logs'] if k == kind and msg.startswith(text.split(' at ')[0])]
    if got != want:
      missing = [w for w in want if w not in got]
      r.bad('C19/cli-options/%s' % ('message-not-recorded' if missing else 'order-or-duplicate'),
            'verbosity=%d quiet=%s: %s logger: recorded %r, emitted %r' % (case['verbosity'], case['quiet'], kind, got, want))
  return r


def plan(tier, seed):
  q = tier == 'quick'
  jobs = []
  for n, k, bound, nsh in ([(2, 1, 2, 8), (2, 2, 1, 1), (3, 1, 1, 1)] if q else [(2, 1, 2, 8), (2, 2, 2, 16), (3, 1, 2, 16), (3, 2, 1, 1)]):
    for sh in range(nsh):
      jobs.append({'kind': 'sched', 'name': 'sched.%d.%d.%d' % (n, k, sh), 'slots': n, 'msgs': k, 'bound': bound, 'shard': sh, 'nshards': nsh})
  jobs.append({'kind': 'verbosity', 'name': 'verbosity'})
  for i in range(2):
    jobs.append({'kind': 'levels', 'name': 'levels%d' % i, 'hseed': seed * 1000 + 300 + i, 'n': 400 if q else 8000})
  for nthreads, k in ((2, 1), (2, 2), (3, 1)):
    jobs.append({'kind': 'sharedrec', 'name': 'sharedrec.%d.%d' % (nthreads, k), 'threads': nthreads, 'msgs': k, 'bound': 2 if (nthreads, k) == (2, 1) and not q else 1})
  jobs.append({'kind': 'excmac', 'name': 'excmac'})
  for i in range(8):
    jobs.append({'kind': 'hist', 'name': 'hist%d' % i, 'hseed': seed * 1000 + i, 'n': 500 if q else 12000})
  for i in range(8):
    jobs.append({'kind': 'real', 'name': 'real%d' % i, 'hseed': seed * 1000 + 100 + i, 'n': 40 if q else 1000})
  return jobs


def run_job(job, acct):
  known = set(job.get('known', ()))
  if job['kind'] == '_regress':
    from vf import runner  # pylint: disable=g-import-not-at-top
    runner.run_regress(sys.modules[__name__], job, acct)
  elif job['kind'] == 'levels':
    hyp.search(acct, level_cases(), check_levels, seed=job['hseed'], max_examples=job['n'], known=known)
  elif job['kind'] == 'sharedrec':
    import itertools  # pylint: disable=g-import-not-at-top
    base = {'sharedrec': job['threads'], 'msgs': job['msgs'], 'plan': {}}
    r0, s0 = check_shared_record(base)
    acct.case(base, r0.nontrivial, r0.classes)
    for sig, detail in r0.violations:
      (acct.known if sig in known else acct.violation)(sig, base, detail)
    npts = s0.k + 2
    for b in range(1, job['bound'] + 1):
      for ks in itertools.combinations(range(npts), b):
        for cs in itertools.product(range(job['threads'] + 1), repeat=b):
          case = dict(base, plan={str(kk): c for kk, c in zip(ks, cs)})
          r, _ = check_shared_record(case)
          acct.case(case, r.nontrivial, r.classes)
          for sig, detail in r.violations:
            (acct.known if sig in known else acct.violation)(sig, case, detail)
    acct.exhaustive_parts.append('%d threads of one run logging %d message(s) each: all schedules with <=%d preemptions over %d yield points' % (
        job['threads'], job['msgs'], job['bound'], npts))
  elif job['kind'] == 'excmac':
    for case in EXC_MAC_CASES:
      r = check_exc_mac(case)
      acct.case(case, r.nontrivial, r.classes)
      for sig, detail in r.violations:
        (acct.known if sig in known else acct.violation)(sig, case, detail)
    acct.exhaustive_parts.append('MAC address in the text / argument / cause of an exception logged with its traceback: 4 places x 4 addresses x 3 loggers')
  elif job['kind'] == 'verbosity':
    for case in VERBOSITY_CASES:
      r = check_verbosity(case)
      acct.case(case, r.nontrivial, r.classes)
      for sig, detail in r.violations:
        (acct.known if sig in known else acct.violation)(sig, case, detail)
    acct.exhaustive_parts.append('CLI verbosity {0, 1 (-v), 2 (-vv), 3} x --quiet, each in a fresh process: every level through the four kinds of logger')
  elif job['kind'] == 'sched':
    import itertools  # pylint: disable=g-import-not-at-top
    base = {'slots': job['slots'], 'msgs': job['msgs'], 'plan': {}}
    r0, s0 = check_sched(base)
    npts = s0.k + 2
    i = 0
    for b in range(0, job['bound'] + 1):
      for ks in itertools.combinations(range(npts), b):
        for cs in itertools.product(range(job['slots']), repeat=b):
          i += 1
          if i % job['nshards'] != job['shard']:
            continue
          case = dict(base, plan={str(a): c for a, c in zip(ks, cs)})
          r, _ = check_sched(case)
          acct.case(case, r.nontrivial, r.classes)
          for sig, detail in r.violations:
            (acct.known if sig in known else acct.violation)(sig, case, detail)
    if job['shard'] == 0:
      acct.exhaustive_parts.append('%d concurrent runs x %d messages: all schedules with <=%d preemptions over %d yield points' % (
          job['slots'], job['msgs'], job['bound'], npts))
  elif job['kind'] == 'hist':
    hyp.search(acct, histories(), check_history, seed=job['hseed'], max_examples=job['n'], known=known)
  else:
    hyp.search(acct, real_cases(), check_real, seed=job['hseed'], max_examples=job['n'], known=known, shrink=False)


def replay(case):
  if 'levelops' in case:
    return check_levels(case).violations
  if 'sharedrec' in case:
    return check_shared_record(case)[0].violations
  if 'excmac' in case:
    return check_exc_mac(case).violations
  if 'verbosity' in case:
    return check_verbosity(case).violations
  if 'slots' in case:
    return check_sched(case)[0].violations
  if 'ops' in case:
    return check_history(case).violations
  return check_real(case).violations
