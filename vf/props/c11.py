"""C11 - runs are isolated: descriptors are never mutated, derived phases are copies, concurrent tests do not mix."""
import copy
import sys
import threading as real_threading

import attr
from hypothesis import strategies as st

from vf import hyp
from vf import ohtf
from vf import progs
from vf import rmode
from vf.hyp import CaseResult

ID = 'C11'
LEVEL = 'exploration'
RULE = ('(A) copy-on-derive: a pool of phase descriptors / collections grown by a generated history (<=25 ops) of derive operations '
        '{with_args, with_plugs (matching and non-matching names), PhaseOptions(...)(p), measures, diagnose, plug, wrap_or_copy, copy, '
        'nest into PhaseSequence / Subtest / BranchSequence / PhaseGroup (lists and an existing PhaseSequence object), '
        'PhaseGroup.with_context, wrap, combine, collection.with_args/with_plugs, Test(...)} interleaved with depth-1 MUTATIONS of a '
        'derived object (option attributes, membership of its plugs / measurements / diagnosers lists, extra_kwargs entries; for a '
        'derived collection: the same on its direct child phases) and with EXECUTIONS of a Test built from a pool object.  Oracle: '
        'a structural fingerprint of every other pool object is unchanged after every op.  (B) a Test executed 1-3 times: '
        'fingerprints of the declared tree unchanged; every run starts from UNSET measurements, an empty state dict and an empty '
        'diagnoses store (observed by the phase bodies at entry); records of consecutive runs are equal modulo volatile fields; the Test is '
        'declared with nested mutable metadata which every run sees pristine, modifies in place through its record and which '
        'neither changes the declared metadata nor an earlier run\'s record.  '
        '(C) two Tests that share phase objects executed concurrently (gated so that their phases interleave, and under the '
        'deterministic scheduler with drawn plans): each run\'s record equals its solo record and neither sees the other\'s '
        'measurements, diagnoses, attachments, state dict, nor (both declared with the same nested metadata object) the other\'s '
        'record metadata.  (D) two Tests built from the same phase - hence the same plug CLASS, as on a multi-slot station - executed '
        'at the same time under the scheduler, constructor taking virtual time, every single preemption over all yield points: both '
        'PASS, one instance each, constructed and torn down once.  Non-trivial = a derive followed by a mutation or an execute of the '
        'derived object; a second run; a concurrent pair; distinct by canonical case.')
ASSUMPTIONS = ['Copy-on-derive is checked for depth-1 modifications: the same Measurement / PhasePlug declaration object reachable from several phases is how measures()/plug() work and is not "modifying the derived phase".',
               'Framework-level openhtf.* log lines are shared by design and excluded from the concurrent comparison.']


# ------------------------------------------------------------------ fingerprints
def fp(obj, depth=0):
  from openhtf.core import phase_descriptor, phase_collections, phase_group, phase_branches, measurements  # pylint: disable=g-import-not-at-top
  if isinstance(obj, phase_descriptor.PhaseDescriptor):
    return ('phase', getattr(obj.func, '__name__', '?'), fp_attrs(obj.options), tuple((p.name, getattr(p.cls, '__name__', repr(p.cls)), p.update_kwargs) for p in obj.plugs),
            tuple(fp(m) for m in obj.measurements), tuple(getattr(d, 'name', '?') for d in obj.diagnosers), tuple(sorted((k, repr(v)) for k, v in obj.extra_kwargs.items())),
            obj.name)
  if isinstance(obj, measurements.Measurement):
    mv = obj.measured_value
    return ('meas', obj.name, obj.docstring, repr(obj.units), repr(obj.dimensions), tuple(str(v) for v in obj.validators),
            len(obj.conditional_validators), obj.outcome.name, obj.marginal, bool(mv.is_value_set), repr(mv.value) if mv.is_value_set else None)
  if isinstance(obj, phase_group.PhaseGroup):
    return ('group', obj.name, fp(obj.setup), fp(obj.main), fp(obj.teardown))
  if isinstance(obj, phase_collections.PhaseSequence):
    extra = ()
    if isinstance(obj, phase_branches.BranchSequence):
      extra = (repr(obj.diag_condition),)
    return (type(obj).__name__, obj.name, tuple(fp(n) for n in obj.nodes)) + extra
  if isinstance(obj, phase_branches.Checkpoint):
    return ('cp', obj.name, obj.action.name)
  if obj is None:
    return None
  return ('other', repr(obj))


def fp_attrs(o):
  return tuple((a.name, repr(getattr(o, a.name)) if not callable(getattr(o, a.name)) else 'callable') for a in attr.fields(type(o)))


def child_phases(obj):
  """Direct child phase descriptors of a derived collection (depth 1)."""
  from openhtf.core import phase_descriptor, phase_collections, phase_group  # pylint: disable=g-import-not-at-top
  if isinstance(obj, phase_descriptor.PhaseDescriptor):
    return [obj]
  out = []
  if isinstance(obj, phase_group.PhaseGroup):
    for seq in (obj.setup, obj.main, obj.teardown):
      if seq is not None:
        out += [n for n in seq.nodes if isinstance(n, phase_descriptor.PhaseDescriptor)]
  elif isinstance(obj, phase_collections.PhaseSequence):
    out += [n for n in obj.nodes if isinstance(n, phase_descriptor.PhaseDescriptor)]
  return out


# ------------------------------------------------------------------ part A
def check_derive(case):
  r = CaseResult()
  htf = ohtf.reset_case()
  from openhtf.core import base_plugs  # pylint: disable=g-import-not-at-top
  R = progs.result_enum()

  class PlugA(htf.plugs.BasePlug):
    pass

  class PlugB(PlugA):
    pass

  diag = htf.PhaseDiagnoser(R, name='dg')(lambda rec: None)
  pool = []
  labels = []

  def add(obj, label):
    pool.append(obj)
    labels.append(label)

  calls = []

  def mkphase(k):
    def body(test, x='declared-default', **kw):
      calls.append((k, x, type(kw.get('pa')).__name__ if 'pa' in kw else None))
      return None
    body.__name__ = 'f%d' % k
    p = htf.PhaseDescriptor.wrap_or_copy(body)
    p = htf.measures(htf.Measurement('m%d' % k))(p)
    p = htf.plugs.plug(ph=PlugA.placeholder, pa=PlugA)(p)
    return p

  add(mkphase(0), 'new0')
  add(mkphase(1), 'new1')
  flags = {'derive_then_mutate': False, 'derive_then_execute': False}
  derived = set()
  nph = 2
  for k, op in enumerate(case['ops']):
    kind = op[0]
    before = [fp(o) for o in pool]
    i = op[1] % len(pool)
    src = pool[i]
    mutated = None
    try:
      from openhtf.core import phase_descriptor as pd, phase_collections as pc, phase_group as pg, phase_branches as pb  # pylint: disable=g-import-not-at-top
      is_phase = isinstance(src, pd.PhaseDescriptor)
      if kind == 'new':
        add(mkphase(nph), 'new%d' % nph)
        nph += 1
      elif kind == 'derive':
        how = op[2]
        j = op[3] % len(pool)
        other = pool[j]
        new = None
        if how == 'with_args':
          new = src.with_args(x=op[3], arg=1)
        elif how == 'with_plugs_match':
          new = src.with_plugs(ph=PlugB)
        elif how == 'with_plugs_nomatch':
          new = src.with_plugs(nosuch=PlugB)
        elif how == 'options' and is_phase:
          new = htf.PhaseOptions(timeout_s=5 + op[3] % 3, repeat_limit=2)(src)
        elif how == 'measures' and is_phase:
          new = htf.measures(htf.Measurement('extra%d' % k))(src)
        elif how == 'diagnose' and is_phase:
          new = htf.diagnose(diag)(src)
        elif how == 'plug' and is_phase:
          new = htf.plugs.plug(**{'pp%d' % k: PlugB})(src)
        elif how == 'wrap_or_copy' and is_phase:
          new = pd.PhaseDescriptor.wrap_or_copy(src)
        elif how == 'copy':
          new = src.copy()
        elif how == 'load_code_info':
          new = src.load_code_info()
        elif how == 'seq':
          new = htf.PhaseSequence(src, other)
        elif how == 'subtest':
          new = htf.Subtest('st%d' % k, src)
        elif how == 'branch':
          new = htf.BranchSequence(htf.DiagnosisCondition.on_all(R.R0), src)
        elif how == 'group_lists':
          new = htf.PhaseGroup(setup=[src], main=[other], teardown=[src])
        elif how == 'group_seqobj' and isinstance(src, pc.PhaseSequence):
          new = htf.PhaseGroup(main=src)
        elif how == 'with_context':
          new = htf.PhaseGroup.with_context([src], [other])(other)
        elif how == 'wrap' and isinstance(src, pg.PhaseGroup):
          new = src.wrap([other])
        elif how == 'combine' and isinstance(src, pg.PhaseGroup) and isinstance(other, pg.PhaseGroup):
          new = src.combine(other)
        elif how == 'test':
          t = htf.Test(src)
          new = t.descriptor.phase_sequence
        if new is not None:
          add(new, '%s(%s)' % (how, labels[i]))
          derived.add(len(pool) - 1)
      elif kind == 'mutate':
        kids = child_phases(src)
        if not kids:
          continue
        tgt = kids[op[3] % len(kids)]
        what = op[2]
        if what == 'opt_timeout':
          tgt.options.timeout_s = 1000 + k
        elif what == 'opt_name':
          tgt.options.name = 'renamed%d' % k
        elif what == 'plugs':
          tgt.plugs.append(base_plugs.PhasePlug('zz%d' % k, PlugB))
        elif what == 'measurements':
          tgt.measurements.append(htf.Measurement('zz%d' % k))
        elif what == 'diagnosers':
          tgt.diagnosers.append(diag)
        elif what == 'extra_kwargs':
          tgt.extra_kwargs['zz%d' % k] = k
        elif what == 'measurement_doc' and tgt.measurements:
          tgt.measurements[0].doc('documented later, by op %d' % k)          # the builder methods of a Measurement work in place
        elif what == 'measurement_validator' and tgt.measurements:
          tgt.measurements[0].with_validator(lambda v: True)
        elif what == 'measurement_validate_on' and tgt.measurements:
          # the rarely used builder: a validator that only counts once a diagnosis result exists
          tgt.measurements[-1].validate_on({R.R0: lambda v: False})
        mutated = i
        if i in derived:
          flags['derive_then_mutate'] = True
      elif kind == 'execute':
        # replace placeholders first, else the Test refuses to run
        runnable = src.with_plugs(ph=PlugB)
        if i in derived:
          flags['derive_then_execute'] = True
        t = htf.Test(runnable)
        # what each function may be called with in this run: the x of a descriptor of that function in the executed tree
        # (its with_args value, else the default the function declares) - whatever ran before, here or in other Tests
        declared = {}
        for ph in ([runnable] if is_phase else list(runnable.all_phases())):
          declared.setdefault(getattr(ph.func, '__name__', '?'), set()).add(ph.extra_kwargs.get('x', 'declared-default'))
        del calls[:]
        try:
          t.execute()
          for fk, x, pa in calls:
            if x not in declared.get('f%d' % fk, set()):
              r.bad('C11/derive/phase-called-with-foreign-arguments', 'op %d: executing %s called f%d with x=%r; descriptors of f%d in this test declare %r' % (
                  k, labels[i], fk, x, fk, sorted(map(repr, declared.get('f%d' % fk, set())))))
              break
            if pa not in (None, 'PlugA'):
              r.bad('C11/derive/phase-called-with-foreign-plug', 'op %d: executing %s called f%d with pa=%s' % (k, labels[i], fk, pa))
              break
        except Exception as e:  # pylint: disable=broad-except
          if type(e).__name__ not in ('DuplicateSubtestNamesError', 'DuplicateResultError', 'InvalidPlugError'):
            r.bad('C11/derive/execute-raised/%s' % type(e).__name__, 'op %d: %r' % (k, e))
    except Exception as e:  # pylint: disable=broad-except
      name = type(e).__name__
      if name in ('InvalidPlugError', 'DuplicateNameError', 'DuplicatePlugError', 'DuplicateSubtestNamesError', 'DuplicateResultError', 'KeyError'):
        continue
      r.bad('C11/derive/op-raised/%s' % name, 'op %d %r on %s raised %r' % (k, op, labels[i], e))
      continue
    after = [fp(o) for o in pool[:len(before)]]
    for idx, (b, a) in enumerate(zip(before, after)):
      if b != a and idx != mutated:
        what = ('mutating %s' % labels[mutated]) if mutated is not None else ('%s %s' % (kind, op[2] if len(op) > 2 else ''))
        how_derived = kind
        if mutated is not None:
          la, lb = labels[idx], labels[mutated]
          if la.endswith('(%s)' % lb):
            how_derived = la.split('(')[0]      # the changed object was derived from the mutated one
          elif lb.endswith('(%s)' % la):
            how_derived = lb.split('(')[0]      # the mutated object was derived from the changed one
          else:
            how_derived = 'indirect'
        r.bad('C11/derive/original-changed/%s' % how_derived,
              'op %d %r: %s changed pool object %d [%s]\n  before=%r\n  after =%r' % (k, op, what, idx, labels[idx], b, a))
        break
  r.nontrivial = any(flags.values())
  r.classes = ['A'] + [k for k, v in flags.items() if v] + ['pool:%d' % min(len(pool) // 4 * 4, 16)]
  return r


DERIVES = ['with_args', 'with_plugs_match', 'with_plugs_nomatch', 'options', 'measures', 'diagnose', 'plug', 'wrap_or_copy', 'copy', 'load_code_info',
           'seq', 'subtest', 'branch', 'group_lists', 'group_seqobj', 'with_context', 'wrap', 'combine', 'test']
MUTS = ['opt_timeout', 'opt_name', 'plugs', 'measurements', 'diagnosers', 'extra_kwargs', 'measurement_doc', 'measurement_validator',
        'measurement_validate_on']


@st.composite
def derive_cases(draw):
  n = draw(st.integers(2, 25))
  ops = []
  for _ in range(n):
    kind = draw(st.sampled_from(['derive', 'derive', 'derive', 'mutate', 'mutate', 'execute', 'new']))
    if kind == 'derive':
      ops.append(['derive', draw(st.integers(0, 30)), draw(st.sampled_from(DERIVES)), draw(st.integers(0, 30))])
    elif kind == 'mutate':
      ops.append(['mutate', draw(st.integers(0, 30)), draw(st.sampled_from(MUTS)), draw(st.integers(0, 5))])
    elif kind == 'execute':
      ops.append(['execute', draw(st.integers(0, 30))])
    else:
      ops.append(['new', 0])
  return {'ops': ops}


# ------------------------------------------------------------------ part B / C
def volatile_free(rec_obs):
  return {
      'outcome': rec_obs['outcome'],
      'phases': [(p['name'], p['outcome'], p['result'], p['subtest'], tuple(sorted(p['meas'].items())), tuple(p['diag']), tuple(p['fdiag'])) for p in rec_obs['phases']],
      'checkpoints': [(c['name'], c['result']) for c in rec_obs['checkpoints']],
      'branches': sorted((b['name'], b['taken']) for b in rec_obs['branches']),
      'subtests': sorted((s['name'], s['outcome']) for s in rec_obs['subtests']),
      'diagnoses': [(d['result'], d['fail']) for d in rec_obs['diagnoses']],
  }


@st.composite
def with_transient_plug(draw, programs):
  """One program in six uses a plug whose constructor fails the first time only (a transient fault of run 0)."""
  prog = draw(programs)
  ph = progs.all_phases(prog)
  if ph and draw(st.integers(0, 5)) == 0:
    prog['plugs'] = [{'ctor': 'raise-once', 'td': 'ok', 'base': None}]
    ph[draw(st.integers(0, len(ph) - 1))]['plugs'] = [['dev', 0, True]]
  return prog


def nested_metadata():
  return {'events': [], 'fixture': {'cycles': 0}}


def check_runs(case):
  """case = {'prog': prog, 'runs': n}: the same Test object executed n times."""
  r = CaseResult()
  prog = case['prog']
  htf = ohtf.reset_case(cancel_timeout_s=0.05, plug_teardown_timeout_s=0.05, **progs.conf_values(prog))
  ctx = progs.Ctx()
  entry_obs = []

  def entry_hook(test_api, inv, plugs):
    st_ = dict(test_api.state)
    # (a monitor's own measurement may already hold its first sample when the body starts)
    unset = all(m.outcome.name == 'UNSET' for k_, m in test_api.measurements._measurements.items() if not k_.startswith('mon_p'))  # pylint: disable=protected-access
    entry_obs.append((len(st_), unset))
    test_api.state['seen'] = test_api.state.get('seen', 0) + 1
    # nested (mutable) metadata the Test was declared with: seen pristine, then modified in place through the record
    md = test_api.test_record.metadata.get('station')
    entry_md.append(copy.deepcopy(md))
    md['events'].append('visited')
    md['fixture']['cycles'] += 1

  for p in progs.all_phases(prog):
    ctx.hooks[p['id']] = entry_hook
  # one more phase at the end of every program: measurements whose validators keep state (a validator deriving from the
  # documented base class; a plain stateful callable inside the built-in pivot validator).  Each accepts only the first
  # value it ever sees, so it passes in every run exactly if every run validates with its own copy.
  from openhtf.util import validators as _validators  # pylint: disable=g-import-not-at-top

  class FirstValueOnly(_validators.ValidatorBase):
    def __init__(self):
      self.seen = []

    def __call__(self, value):
      self.seen.append(value)
      return len(self.seen) == 1

  class FirstRowsOnly(object):
    def __init__(self):
      self.seen = []

    def __call__(self, value):
      self.seen.append(value)
      return len(self.seen) == 1

  declared_validators = [FirstValueOnly(), FirstRowsOnly()]

  @htf.measures(htf.Measurement('vf_stateful').with_validator(declared_validators[0]),
                htf.Measurement('vf_pivot').with_dimensions('x').with_validator(_validators.dimension_pivot_validate(declared_validators[1])))
  def vf_stateful_validators(test_api):
    test_api.measurements.vf_stateful = 42
    test_api.measurements.vf_pivot[0] = 7

  plug_map = progs.make_plug_classes(prog['plugs'], ctx, htf) if prog.get('plugs') else None
  built = [progs.build_node(n, ctx, htf, plug_map) for n in prog['nodes']] + [vf_stateful_validators]
  test, tsarg = progs.build_test(prog, ctx, htf, plug_map=plug_map, prebuilt_nodes=built)
  declared_md = nested_metadata()
  test.descriptor.metadata['station'] = declared_md
  entry_md, md_snaps = [], []
  got = []
  test.add_output_callbacks(got.append)
  tree_before = fp(test.descriptor.phase_sequence)
  timeouts = any(p['o'].get('to') == 0 for p in progs.all_phases(prog))
  summaries = []
  first_run_state = []
  for run in range(case['runs']):
    ctx.inv.clear()
    del entry_obs[:]
    del entry_md[:]
    n_before = len(got)
    try:
      test.execute(test_start=tsarg)
    except Exception as e:  # pylint: disable=broad-except
      r.bad('C11/runs/execute-raised/%s' % type(e).__name__, 'run %d: %r' % (run, e))
      break
    if len(got) == n_before:
      r.bad('C11/runs/no-record', 'run %d' % run)
      break
    if entry_obs:
      first_state_len = entry_obs[0][0]
      if first_state_len != 0:
        r.bad('C11/runs/state-dict-not-empty', 'run %d: the first phase saw a state dict with %d entries' % (run, first_state_len))
      if not all(u for _, u in entry_obs):
        r.bad('C11/runs/measurement-not-unset-at-entry', 'run %d: a phase body started with a measurement that is not UNSET' % run)
    summaries.append(volatile_free(rmode.observe_record(got[-1])))
    md_snaps.append(copy.deepcopy(got[-1].metadata.get('station')))
    if entry_md and entry_md[0] != nested_metadata():
      r.bad('C11/runs/metadata-not-pristine', 'run %d: the first phase saw metadata %r (declared %r)' % (run, entry_md[0], nested_metadata()))
    if declared_md != nested_metadata():
      r.bad('C11/runs/declared-metadata-mutated-by-execute', 'run %d: the metadata the Test was declared with is now %r' % (run, declared_md))
    for k, snap in enumerate(md_snaps[:-1]):
      if got[n_before - (len(md_snaps) - 1 - k)].metadata.get('station') != snap:
        r.bad('C11/runs/earlier-record-changed-by-later-run', 'record of run %d: metadata %r became %r during run %d' % (
            k, snap, got[n_before - (len(md_snaps) - 1 - k)].metadata.get('station'), run))
        break
    if fp(test.descriptor.phase_sequence) != tree_before:
      r.bad('C11/runs/descriptor-mutated-by-execute', 'run %d changed the declared tree\n before=%r\n after=%r' % (
          run, tree_before, fp(test.descriptor.phase_sequence)))
      break
    if any(v.seen for v in declared_validators):
      r.bad('C11/runs/declared-validator-used-by-a-run', 'run %d validated with the validator objects the phase was declared with (state now %r): runs share them' % (
          run, [v.seen for v in declared_validators]))
      break
  ctx.cancel.set()
  if got:
    # a delivered record is final: declaring one more test diagnoser for the next run must not show up in it
    n_diag = len(got[-1].diagnosers)
    noop = htf.TestDiagnoser(progs.result_enum(), name='vf_added_later')(lambda rec: None)
    try:
      test.add_test_diagnosers(noop)
    except Exception:  # pylint: disable=broad-except
      pass
    if len(got[-1].diagnosers) != n_diag:
      r.bad('C11/runs/earlier-record-changed-by-later-declaration', 'the record of the last run listed %d test diagnosers, after add_test_diagnosers() on the Test it lists %d' % (
          n_diag, len(got[-1].diagnosers)))
  transient = any(pl.get('ctor') == 'raise-once' for pl in prog.get('plugs') or [])
  if transient:
    # run 0 suffered the fault; the later runs must not: compare them with each other, and none of them may blame the plug
    for k, rec in enumerate(got[1:], 1):
      codes = [d.code for d in rec.outcome_details]
      if 'InvalidPlugError' in codes or 'PlugBoom' in codes:
        r.bad('C11/runs/record-depends-on-earlier-run/plug-fault-sticks', 'run %d (no fault injected) ended %s with details %r after run 0 had a failing plug constructor' % (
            k, rec.outcome.name, codes))
        break
    summaries = summaries[1:]
  if len(summaries) >= 2 and not timeouts:
    for k, s in enumerate(summaries[1:], 1):
      if s != summaries[0]:
        diffk = [key for key in s if s[key] != summaries[0][key]]
        r.bad('C11/runs/record-depends-on-earlier-run/%s' % diffk[0], 'run %d differs from run 0 in %r: %r vs %r' % (k, diffk, s[diffk[0]], summaries[0][diffk[0]]))
        break
  r.nontrivial = case['runs'] >= 2
  r.classes = ['B', 'runs:%d' % case['runs']]
  return r


def check_concurrent(case):
  """case = {'prog': prog}: two Tests built from the SAME node objects run concurrently, phases interleaved by gates."""
  r = CaseResult()
  prog = case['prog']
  htf = ohtf.reset_case(cancel_timeout_s=0.05, plug_teardown_timeout_s=0.05, **progs.conf_values(prog))
  # solo record
  ctx0 = progs.Ctx()
  test0, ts0 = progs.build_test(prog, ctx0, htf)
  solo = []
  test0.add_output_callbacks(solo.append)
  test0.execute(test_start=ts0)
  ctx0.cancel.set()
  if not solo:
    return r
  solo_s = volatile_free(rmode.observe_record(solo[0]))
  # two tests sharing the node objects; a turnstile makes their phase bodies alternate
  ctx = progs.Ctx()
  nodes = [progs.build_node(n, ctx, htf) for n in prog['nodes']]
  tests = [progs.build_test(prog, ctx, htf, prebuilt_nodes=nodes)[0] for _ in range(2)]
  turn = {'n': 0}
  cond = real_threading.Condition()
  seen_foreign = []

  def hook(test_api, inv, plugs):
    # mark the run's private state and look for the other run's marks
    me = test_api.test_record.metadata.get('who')
    for k, v in list(test_api.state.items()):
      if v != me:
        seen_foreign.append(('state', me, k, v))
    test_api.state['mark%d' % len(test_api.state)] = me
    test_api.test_record.metadata['station']['events'].append(me)
    with cond:
      turn['n'] += 1
      cond.notify_all()
      cond.wait(0.01)   # give the other test a chance to run its phase now

  for p in progs.all_phases(prog):
    ctx.hooks[p['id']] = hook
  recs = [[], []]
  station = nested_metadata()    # both slots of the station are declared with the same (nested) metadata object
  for k, t in enumerate(tests):
    t.descriptor.metadata['who'] = 'T%d' % k
    t.descriptor.metadata['station'] = station
    t.add_output_callbacks(recs[k].append)
  errs = []

  def runner(k):
    try:
      tests[k].execute()
    except Exception as e:  # pylint: disable=broad-except
      errs.append((k, e))

  ths = [real_threading.Thread(target=runner, args=(k,)) for k in range(2)]
  for th in ths:
    th.start()
  for th in ths:
    th.join(60)
  ctx.cancel.set()
  if errs:
    r.bad('C11/concurrent/execute-raised/%s' % type(errs[0][1]).__name__, repr(errs[0]))
    return r
  if seen_foreign:
    r.bad('C11/concurrent/state-dict-shared', repr(seen_foreign[:3]))
  timeouts = any(p['o'].get('to') == 0 for p in progs.all_phases(prog))
  multi_inv = any(len(p['s']) > 1 for p in progs.all_phases(prog))
  for k in range(2):
    if not recs[k]:
      r.bad('C11/concurrent/no-record', 'test %d' % k)
      continue
    foreign = [e for e in recs[k][0].metadata['station']['events'] if e != 'T%d' % k]
    if foreign:
      r.bad('C11/concurrent/record-metadata-shared', 'record of test %d holds metadata entries written by the other test: %r' % (k, recs[k][0].metadata['station']))
    s = volatile_free(rmode.observe_record(recs[k][0]))
    # behaviour scripts are indexed by a per-Ctx invocation counter shared by both tests: only compare programs
    # whose phases behave the same on every invocation
    if not timeouts and not multi_inv and s != solo_s:
      diffk = [key for key in s if s[key] != solo_s[key]]
      r.bad('C11/concurrent/record-differs-from-solo/%s' % diffk[0], 'test %d: %r vs solo %r' % (k, s[diffk[0]], solo_s[diffk[0]]))
  r.nontrivial = True
  r.classes = ['C', 'comparable:%s' % (not timeouts and not multi_inv)]
  return r


def check_shared_plug(case):
  """case = {'shared_plug': n_tests, 'plan': {yield index: thread choice}}.

  n Tests built from the same phase (hence the same plug CLASS - the station pattern) are executed at the same time under
  the deterministic scheduler; the plug constructor and PlugManager are preemptible line by line.  Oracle: every run is
  PASS with its own instance, constructed and torn down once.
  """
  from vf import vmode  # pylint: disable=g-import-not-at-top
  from vf import vsched as V  # pylint: disable=g-import-not-at-top
  r = CaseResult()
  vmode.setup()
  import openhtf.plugs as plugs_  # pylint: disable=g-import-not-at-top
  V.monitor_lines(V.code_objects_of(plugs_.PlugManager) + vmode.executor_code_objects())
  plan_ = {int(k): v for k, v in (case.get('plan') or {}).items()}
  n = case['shared_plug']

  def fn(s):
    htf = ohtf.reset_case(cancel_timeout_s=0.05, plug_teardown_timeout_s=0.05)
    vmode.quiet_logging()
    log = []

    class Shared(htf.plugs.BasePlug):
      def __init__(self):
        log.append(('ctor-begin', s.me().idx))
        s.sleep(0.05)        # opening the instrument takes a while
        log.append(('ctor-end', s.me().idx))

      def tearDown(self):
        log.append(('td', id(self)))

    def body(test, dev):
      log.append(('body', test.test_record.dut_id, id(dev)))

    body.__name__ = 'uses_shared'
    phase = htf.plug(dev=Shared)(body)
    tests = [htf.Test(phase) for _ in range(n)]
    out = [None] * n

    def runner(k):
      got = []
      tests[k].add_output_callbacks(got.append)
      try:
        tests[k].execute(test_start=lambda: 'dut%d' % k)
        out[k] = (got[0].outcome.name, [d.code for d in got[0].outcome_details])
      except BaseException as e:  # pylint: disable=broad-except
        out[k] = ('raised', repr(e)[:200])

    ths = [real_threading.Thread(target=runner, args=(k,), name='slot%d' % k, daemon=True) for k in range(n)]
    for t in ths:
      t.start()
    for t in ths:
      t.join()
    return out, log

  s = V.Scheduler(plan=plan_, time_limit=1e5, max_steps=300000)
  res, exc = s.run(lambda: fn(s), watchdog_s=20.0)
  tag = 'shared plug class, %d tests, plan=%r' % (n, case.get('plan'))
  r.nontrivial = bool(s.effective_preemptions)
  r.classes = ['shared-plug-class', 'tests:%d' % n, 'preemptions:%d' % min(len(s.effective_preemptions), 3)]
  if s.failure is not None:
    if s.failure[0] in ('deadlock', 'steplimit'):
      r.bad('C11/shared-plug/hang', '%s: %s' % (tag, s.failure[1][:400]))
      return r, s
    raise RuntimeError('scheduler failure %r' % (s.failure,))
  if exc is not None:
    raise exc
  out, log = res
  bad = [(k, o) for k, o in enumerate(out) if o is None or o[0] != 'PASS']
  if bad:
    r.bad('C11/shared-plug/run-disturbed-by-the-other/%s' % (bad[0][1][1][0] if bad[0][1] and bad[0][1][1] and bad[0][1][0] != 'raised' else 'other'),
          '%s: outcomes %r' % (tag, out))
  else:
    devs = [e[2] for e in log if e[0] == 'body']
    if len(set(devs)) != n or len([e for e in log if e[0] == 'ctor-end']) != n or sorted(e[1] for e in log if e[0] == 'td') != sorted(devs):
      r.bad('C11/shared-plug/instances', '%s: log %r' % (tag, log))
  return r, s


def plan(tier, seed):
  q = tier == 'quick'
  jobs = []
  for nsh in range(4):
    jobs.append({'kind': 'shared-plug', 'name': 'shared-plug%d' % nsh, 'shard': nsh, 'nshards': 4, 'tests': 2, 'stride': 2 if q else 1, 'offset': seed % 2 if q else 0})
  for i in range(8):
    jobs.append({'kind': 'derive', 'name': 'derive%d' % i, 'hseed': seed * 1000 + i, 'n': 600 if q else 6000})
  for i in range(4):
    jobs.append({'kind': 'runs', 'name': 'runs%d' % i, 'hseed': seed * 1000 + 100 + i, 'n': 300 if q else 4000})
  for i in range(4):
    jobs.append({'kind': 'conc', 'name': 'conc%d' % i, 'hseed': seed * 1000 + 200 + i, 'n': 120 if q else 1500})
  return jobs


def run_job(job, acct):
  known = set(job.get('known', ()))
  if job['kind'] == '_regress':
    from vf import runner  # pylint: disable=g-import-not-at-top
    runner.run_regress(sys.modules[__name__], job, acct)
  elif job['kind'] == 'shared-plug':
    base = {'shared_plug': job['tests'], 'plan': {}}
    r0, s0 = check_shared_plug(base)
    acct.case(base, r0.nontrivial, r0.classes)
    for sig, detail in r0.violations:
      (acct.known if sig in known else acct.violation)(sig, base, detail)
    i = 0
    for k in range(job['offset'], s0.k + 2, job['stride']):
      for c in range(job['tests'] + 1):
        i += 1
        if i % job['nshards'] != job['shard']:
          continue
        case = dict(base, plan={str(k): c})
        r, _ = check_shared_plug(case)
        acct.case(case, r.nontrivial, r.classes)
        for sig, detail in r.violations:
          (acct.known if sig in known else acct.violation)(sig, case, detail)
    if job['shard'] == 0 and job['stride'] == 1:
      acct.exhaustive_parts.append('two tests sharing a plug class: every single preemption over %d yield points' % (s0.k + 2))
  elif job['kind'] == 'derive':
    hyp.search(acct, derive_cases(), check_derive, seed=job['hseed'], max_examples=job['n'], known=known)
  elif job['kind'] == 'runs':
    strat = st.builds(lambda p, n: {'prog': p, 'runs': n}, with_transient_plug(progs.programs(strict=False, max_nodes=8, maxdepth=2, with_test_start=True)),
                      st.sampled_from([2, 2, 3]))
    hyp.search(acct, strat, check_runs, seed=job['hseed'], max_examples=job['n'], known=known)
  else:
    strat = st.builds(lambda p: {'prog': p, 'concurrent': 1}, progs.programs(strict=False, max_nodes=6, maxdepth=2, with_test_start=False))
    hyp.search(acct, strat, check_concurrent, seed=job['hseed'], max_examples=job['n'], known=known, shrink=False)


def replay(case):
  if 'shared_plug' in case:
    return check_shared_plug(case)[0].violations
  if 'ops' in case:
    return check_derive(case).violations
  if 'runs' in case:
    return check_runs(case).violations
  return check_concurrent(case).violations
