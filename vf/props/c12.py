"""C12 - phase timeout and thread kill: no hang, no false timeout, kill confined to the body (virtual time + schedules)."""
import itertools
import sys
import threading as real_threading

from hypothesis import strategies as st

from vf import hyp
from vf import ohtf
from vf import vmode
from vf import vsched as V
from vf.hyp import CaseResult

ID = 'C12'
LEVEL = 'exploration'
ENGINE = 'vsched'
RULE = ('Domain 1 (timeouts, virtual time): one phase under test with duration d and timeout t on a grid around each other and '
        'around the 3 s join poll (d in {0, t-eps, t+eps, t+1, t+3-eps, t+3+eps, never returns}, t in {0.5, 3, 5, default 180, default set through --phase_default_timeout_s}) x body '
        'kind {returns, sleeps killable, swallows the termination error and keeps running, hangs with a partially set dimensioned measurement whose validator raises, does late work after being abandoned: '
        'sets its measurement, attaches, logs, returns FAIL} x position {alone, group main with teardown, group setup, group '
        'teardown} x repeat_on_timeout; the whole grid is enumerated and every case is also run under every single preemption of '
        'a line-level schedule (sampled shards in the quick tier).  Oracle: d < t => never TIMEOUT and the body\'s own result is '
        'recorded; d > t => outcome TIMEOUT (also for a body that returns within the 3 s join poll after its deadline), teardown phases and plug tearDown executed, execute() returns by virtual time '
        't + poll + teardown cost even for the unkillable body (the scheduler reports a hang otherwise); late actions of an '
        'abandoned body change no other phase\'s record.  Domain 2 (KillableThread alone): a killer thread calls kill() while a '
        'killable thread goes through start / lock / body (4 steps) / exception handler / finish handler; ALL schedules with <=2 '
        'preemptions are enumerated.  Oracle: kill that returned before start() => body never runs; ThreadTerminationError is only '
        'ever observed inside the body, never in the handlers, the killer or main; a kill that completed while the body had >=2 '
        'steps left => the body does not finish.  Non-trivial = |d - t| <= eps or d within the poll window, or a kill that lands '
        'within two yield points of a state change of the target; distinct by canonical case.  The grid also contains bodies that '
        'return REPEAT twice and then a value, each invocation taking 0.3-0.9 of timeout_s (the timeout is per invocation), and the grid under stop_on_first_failure (test option and configuration key): a timeout is reported as TIMEOUT under it too.')
ASSUMPTIONS = ['Virtual time; PyThreadState_SetAsyncExc is modelled as "pending exception raised at the target\'s next yield point".']

EPS = 0.01
POLL = 3.0


def _spawn(fn, name):
  t = real_threading.Thread(target=fn, name=name)
  t.daemon = True
  t.start()
  return t


# ------------------------------------------------------------------ domain 1
def timeout_case(case):
  """case = {'t': float|None, 'd': float|'inf', 'kind': str, 'pos': str, 'rot': bool}"""
  def fn(s):
    extra_conf = {'stop_on_first_failure': True} if case.get('sof') == 'conf' else {}
    htf = ohtf.reset_case(cancel_timeout_s=0.5, plug_teardown_timeout_s=0.5, **extra_conf)
    vmode.quiet_logging()
    from openhtf.util import threads  # pylint: disable=g-import-not-at-top
    log = []
    d = 1e7 if case['d'] == 'inf' else case['d']
    kind = case['kind']

    class P(htf.plugs.BasePlug):
      def tearDown(self):
        log.append(('plug-td', s.now))

    def body(test, plug):
      inv = len([e for e in log if e[0] == 'put'])
      log.append(('put', s.now))
      s.events.append(('put-start', s.k, s.me().idx))
      if kind == 'returns':
        s.sleep(d)
        test.measurements.pm = 5
        s.events.append(('put-end', s.k, s.me().idx))
        return None
      if kind == 'killable':
        s.sleep(d)
        return None
      if kind == 'notifying':
        # a body that keeps publishing state updates and then never returns; the kill can reach it anywhere, also inside
        # the framework's own critical sections
        for _ in range(3):
          test.notify_update()
          test.logger.info('working')
        s.sleep(1e7)
        return None
      if kind == 'partial-dim':
        # sets one point of a dimensioned measurement whose validator raises on incomplete data, then hangs: the
        # end-of-phase validation of the abandoned phase raises while its record is finalized
        test.measurements.dm[0] = 1
        s.sleep(1e7)
        return None
      if kind == 'rot-recovers':
        # repeat_on_timeout: the first invocation never returns (it is abandoned at its deadline), the second is quick
        if inv == 0:
          s.sleep(1e7)
        test.measurements.pm = 5
        return None
      if kind == 'repeats':
        # every invocation stays inside its own timeout; together they take longer than one timeout
        s.sleep(d)
        if inv < 2:
          return htf.PhaseResult.REPEAT
        test.measurements.pm = 5
        return None
      # unkillable / late: swallow the termination error once and keep going
      try:
        s.sleep(d if d < 1e6 else (case['t'] if case['t'] is not None else 180.0) + 10.0)
      except threads.ThreadTerminationError:
        log.append(('swallowed', s.now))
        try:
          s.sleep(40.0)
        except threads.ThreadTerminationError:
          log.append(('swallowed2', s.now))
      if kind == 'late':
        log.append(('late-work', s.now))
        try:
          test.measurements.pm = 50
          test.attach('late', b'late data')
          test.logger.info('late log')
        except Exception as e:  # pylint: disable=broad-except
          log.append(('late-raised', type(e).__name__))
        s.events.append(('put-end', s.k, s.me().idx))
        return htf.PhaseResult.FAIL_AND_CONTINUE
      return None

    body.__name__ = 'put'
    opts = {}
    if case['t'] is not None:
      opts['timeout_s'] = case['t']
    if case.get('rot') or kind == 'rot-recovers':
      opts['repeat_on_timeout'] = True
      opts['repeat_limit'] = 2
    decl = [htf.Measurement('pm').in_range(0, 10)]
    if kind == 'partial-dim':
      decl = [htf.Measurement('dm').with_dimensions('x').with_validator(lambda rows: rows[2][-1] < 10)]
    put = htf.PhaseOptions(**opts)(htf.measures(*decl)(htf.plug(plug=P)(body)))

    @htf.PhaseOptions(timeout_s=180.0)   # its own: the default may have been lowered through the flag
    @htf.measures(htf.Measurement('tm').in_range(0, 10))
    def td(test):
      log.append(('td', s.now))
      s.sleep(50.0)   # long enough for an abandoned body to do its late work meanwhile
      test.measurements.tm = 7
      test.attach('td-att', b'td')
      log.append(('td-end', s.now))

    def other(test):
      log.append(('other', s.now))

    pos = case['pos']
    if pos == 'alone':
      nodes = [put, other]
    elif pos == 'main':
      nodes = [htf.PhaseGroup(main=[put, other], teardown=[td])]
    elif pos == 'setup':
      nodes = [htf.PhaseGroup(setup=[put], main=[other], teardown=[td])]
    else:
      nodes = [htf.PhaseGroup(main=[other], teardown=[put, td])]
    test = htf.Test(*nodes)
    if case.get('sof') == 'opt':
      # an unrelated test option: a timeout is a timeout under it too
      test.configure(stop_on_first_failure=True)
    got = []
    test.add_output_callbacks(got.append)
    from openhtf.core import phase_executor  # pylint: disable=g-import-not-at-top
    default_before = phase_executor.DEFAULT_PHASE_TIMEOUT_S
    if case.get('flag') is not None:
      # the default phase timeout as an operator sets it: on the command line
      phase_executor.ARG_PARSER.parse_known_args(['--phase_default_timeout_s', str(case['flag'])])
    try:
      ret = test.execute()
    finally:
      phase_executor.DEFAULT_PHASE_TIMEOUT_S = default_before
    end = s.now
    rec = got[0]
    recs = [(p.name, p.outcome.name, type(p.result.phase_result).__name__ if p.result.phase_result is not None and not hasattr(p.result.phase_result, 'name')
             else (p.result.phase_result.name if p.result.phase_result is not None else 'TIMEOUT'),
             {k: (m.outcome.name, m.measured_value.value if m.measured_value.is_value_set else None) for k, m in p.measurements.items()},
             sorted(p.attachments)) for p in rec.phases]
    return {'ret': ret, 'outcome': rec.outcome.name, 'log': log, 'end': end, 'recs': recs}

  return fn


def check_timeout(case):
  r = CaseResult()
  vmode.setup()
  plan = {int(k): v for k, v in (case.get('plan') or {}).items()}
  stalled = any(isinstance(v, (list, tuple)) for v in plan.values())
  s, res, exc = vmode.run(timeout_case(case), plan=plan, time_limit=1e6, watchdog_s=20.0, trace=bool(case.get('trace') or case.get('expect')),
                          max_steps=60000)
  if case.get('expect'):
    # A stall is only meaningful at the place it was chosen for (after the body's outcome was published).  Yield
    # indices can drift between runs (one-time initialisation executes extra lines); when the planned index is not the
    # expected line of the expected thread, the case decides nothing.
    at = {k: (tidx, tag) for k, tidx, tag in s.tags}
    for k, (tidx, func, line) in case['expect'].items():
      got = at.get(int(k))
      if got is None or got[0] != tidx or not got[1] or tuple(got[1][1:3]) != (func, line):
        r.classes = ['timeout', 'stall-drift']
        return r, s
  t = case['t'] if case['t'] is not None else float(case.get('flag') or 180.0)
  d = float('inf') if case['d'] == 'inf' else case['d']
  tag = 'pos:%s/kind:%s%s%s' % (case['pos'], case['kind'], '/--phase_default_timeout_s=%s' % case['flag'] if case.get('flag') is not None else '',
                             '/stop_on_first_failure(%s)' % case['sof'] if case.get('sof') else '')
  near = abs(d - t) <= 2 * EPS or (t < d <= t + POLL + 2 * EPS)
  r.nontrivial = near or bool(s.effective_preemptions)
  r.classes = ['timeout', 'pos:' + case['pos'], 'kind:' + case['kind'], 't:%s' % case['t'],
               'zone:' + ('before' if d < t else 'grace' if d <= t + POLL else 'after'), 'preemptions:%d' % min(len(s.effective_preemptions), 3)] + (
                   ['stop_on_first_failure:' + case['sof']] if case.get('sof') else [])
  if s.failure is not None:
    if s.failure[0] in ('deadlock', 'steplimit'):
      r.bad('C12/timeout/hang', '%s t=%s d=%s: %s' % (tag, case['t'], case['d'], s.failure[1][:500]))
      return r, s
    raise RuntimeError('scheduler failure: %r' % (s.failure,))
  if exc is not None:
    r.bad('C12/timeout/execute-raised/%s' % type(exc).__name__, '%s: %r' % (tag, exc))
    return r, s
  log = res['log']
  puts = [p for p in res['recs'] if p[0] == 'put']
  n_inv = len([e for e in log if e[0] == 'put'])
  invs = 2 if case.get('rot') else 1
  if case.get('kill_stall'):
    # whichever way the race between the kill and the body's own end goes: the run reports the timeout or the body's own
    # result, the executor survives, teardown and plug tearDown run
    own = {'returns': 'PASS', 'killable': 'FAIL', 'late': 'FAIL'}[case['kind']]      # killable never sets its measurement
    r.classes.append('kill-stall')
    if res['outcome'] not in ('TIMEOUT', own):
      r.bad('C12/timeout/kill-raced-with-exit/outcome-%s' % res['outcome'], '%s t=%s d=%s plan=%r: outcome %s, records %r' % (
          tag, case['t'], case['d'], case.get('plan'), res['outcome'], res['recs']))
    if not any(e[0] == 'plug-td' for e in log):
      r.bad('C12/timeout/plug-teardown-skipped', '%s plan=%r: log %r' % (tag, case.get('plan'), log))
    if case['pos'] in ('main', 'teardown') and not any(e[0] == 'td-end' for e in log):
      r.bad('C12/timeout/group-teardown-skipped', '%s plan=%r: log %r' % (tag, case.get('plan'), log))
    return r, s
  if case['kind'] == 'rot-recovers':
    # "a phase still running when its timeout expires is abandoned: the run reports TIMEOUT" - also when the phase is then
    # repeated and the repeat succeeds (the abandoned invocation's record is ERROR/timeout, and C01 allows no PASS with it)
    if not any(p[2] == 'TIMEOUT' for p in puts):
      r.bad('C12/timeout/not-recorded', '%s t=%s: first invocation ran into its timeout but no record says so: %r' % (tag, case['t'], puts))
    elif res['outcome'] == 'PASS':
      r.bad('C12/timeout/repeated-away/run-reports-PASS', '%s t=%s: the first invocation timed out (record %r) and was repeated; the run reports PASS' % (
          tag, case['t'], puts[0]))
    if not any(e[0] == 'plug-td' for e in log):
      r.bad('C12/timeout/plug-teardown-skipped', '%s: log %r' % (tag, log))
    return r, s
  if d < t - EPS / 2:
    if res['outcome'] == 'TIMEOUT' or any(p[2] == 'TIMEOUT' for p in puts):
      r.bad('C12/timeout/false-timeout', '%s t=%s d=%s: body returned before its deadline but outcome %s records %r' % (tag, case['t'], case['d'], res['outcome'], puts))
    elif case['kind'] == 'returns' and not (puts and puts[-1][1] == 'PASS' and puts[-1][3].get('pm', (None,))[0] == 'PASS'):
      r.bad('C12/timeout/own-result-lost', '%s: body finished in time but its record is %r' % (tag, puts))
    elif case['kind'] == 'repeats' and not (n_inv == 3 and puts and puts[-1][1] == 'PASS' and puts[-1][3].get('pm', (None,))[0] == 'PASS'):
      r.bad('C12/timeout/own-result-lost', '%s t=%s d=%s: three invocations, each within its timeout (REPEAT, REPEAT, then a value): %d invocations, records %r' % (
          tag, case['t'], case['d'], n_inv, puts))
    elif case['kind'] == 'late' and not (puts and puts[-1][1] == 'FAIL'):
      r.bad('C12/timeout/own-result-lost', '%s: body returned FAIL_AND_CONTINUE in time but its record is %r' % (tag, puts))
  elif d > t + EPS / 2 and not stalled:
    if res['outcome'] != 'TIMEOUT':
      r.bad('C12/timeout/not-reported', '%s t=%s d=%s: body still running at the deadline but outcome is %s' % (tag, case['t'], case['d'], res['outcome']))
    if not any(e[0] == 'plug-td' for e in log):
      r.bad('C12/timeout/plug-teardown-skipped', '%s: log %r' % (tag, log))
    if case['pos'] in ('main', 'teardown') and not any(e[0] == 'td-end' for e in log):
      r.bad('C12/timeout/group-teardown-skipped', '%s: log %r' % (tag, log))
    # bounded delay: every invocation is abandoned at most one poll interval after its deadline
    bound = invs * (t + POLL) + 50.0 + 0.5 + 0.5 + 1.0
    if res['end'] > bound:
      r.bad('C12/timeout/executor-delayed', '%s t=%s: execute() returned at virtual time %.2f, bound %.2f' % (tag, case['t'], res['end'], bound))
    # the abandoned body's late work must not leak into other phases' records
    for name, outcome, result, meas, atts in res['recs']:
      if name == 'td':
        if meas.get('tm') != ('PASS', 7) or atts != ['td-att'] or outcome != 'PASS':
          r.bad('C12/timeout/late-work-leaked', '%s: teardown record changed by the abandoned body: %r %r %r' % (tag, outcome, meas, atts))
      if name == 'other' and (meas or atts):
        r.bad('C12/timeout/late-work-leaked', '%s: record of %s has %r %r' % (tag, name, meas, atts))
  return r, s


def timeout_grid():
  for t in (0.5, 3.0, 5.0, None):
    tt = t if t is not None else 180.0
    for d in (0.0, tt - EPS, tt + EPS, tt + 1.0, tt + POLL - EPS, tt + POLL + 2 * EPS, 'inf'):
      for kind in ('returns', 'killable', 'unkillable', 'late'):
        for pos in ('alone', 'main', 'setup', 'teardown'):
          for rot in (False, True):
            if rot and (kind != 'killable' or pos != 'alone'):
              continue
            if d != 'inf' and d < 0:
              continue
            yield {'t': t, 'd': d if d == 'inf' else round(d, 4), 'kind': kind, 'pos': pos, 'rot': rot}
    for pos in ('alone', 'main', 'setup', 'teardown'):
      yield {'t': t, 'd': 'inf', 'kind': 'rot-recovers', 'pos': pos, 'rot': False}
    if t in (0.5, 3.0):
      for pos in ('alone', 'main'):
        yield {'t': t, 'd': 'inf', 'kind': 'notifying', 'pos': pos, 'rot': False}
      for pos in ('alone', 'main', 'setup', 'teardown'):
        yield {'t': t, 'd': 'inf', 'kind': 'partial-dim', 'pos': pos, 'rot': False}
    for frac in (0.3, 0.4, 0.6, 0.9):
      for pos in ('alone', 'main', 'setup', 'teardown'):
        yield {'t': t, 'd': round(tt * frac, 4), 'kind': 'repeats', 'pos': pos, 'rot': False}
  for sof in ('opt', 'conf'):
    for t in (0.5, 3.0):
      for d in (0.0, t + EPS, 'inf'):
        for kind in ('returns', 'killable', 'unkillable', 'late'):
          for pos in ('alone', 'main', 'setup', 'teardown'):
            yield {'t': t, 'd': d if d == 'inf' else round(d, 4), 'kind': kind, 'pos': pos, 'rot': False, 'sof': sof}
  for flag in (5, 2.5, 400):
    for d in (0.0, flag - EPS, flag + EPS, 'inf'):
      for kind in ('returns', 'killable'):
        for pos in ('alone', 'main'):
          yield {'t': None, 'flag': flag, 'd': d if d == 'inf' else round(d, 4), 'kind': kind, 'pos': pos, 'rot': False}


# ------------------------------------------------------------------ domain 2
def kill_case(case):
  """case = {'kill_before_start': bool, 'kills': 1|2}"""
  def fn(s):
    from openhtf.util import threads  # pylint: disable=g-import-not-at-top
    log = []

    def guarded(where, f):
      try:
        return f()
      except threads.ThreadTerminationError:
        log.append(('termination-seen-in', where))
        raise

    class T(threads.KillableThread):
      def _thread_proc(self):
        log.append(('body-begin',))
        try:
          for i in range(4):
            s.yield_point('body-step')
            log.append(('body-step', i))
        except threads.ThreadTerminationError:
          log.append(('termination-seen-in', 'body'))
          raise
        log.append(('body-end',))

      def _thread_exception(self, *a):
        def f():
          log.append(('exc-handler-enter',))
          s.yield_point('h1')
          s.yield_point('h2')
          log.append(('exc-handler-exit',))
          return True
        return guarded('exception-handler', f)

      def _thread_finished(self):
        def f():
          log.append(('finish-enter',))
          s.yield_point('f1')
          s.yield_point('f2')
          log.append(('finish-exit',))
        return guarded('finish-handler', f)

    t = T(name='victim')

    def killer():
      for _ in range(case['kills']):
        log.append(('kill-enter',))
        guarded('killer', t.kill)
        log.append(('kill-exit',))

    if case['kill_before_start']:
      guarded('main', t.kill)
      log.append(('kill-exit',))
      log.append(('start',))
      guarded('main', t.start)
    else:
      k = _spawn(killer, 'killer')
      s.yield_point('before-start')
      log.append(('start',))
      guarded('main', t.start)
      guarded('main', k.join)
    guarded('main', t.join)
    return log

  return fn


def check_kill(case):
  r = CaseResult()
  vmode.setup()
  plan = {int(k): v for k, v in (case.get('plan') or {}).items()}
  s, log, exc = vmode.run(kill_case(case), plan=plan, time_limit=1e5, watchdog_s=10.0)
  r.classes = ['kill', 'before-start:%s' % case['kill_before_start'], 'preemptions:%d' % min(len(s.effective_preemptions), 3)]
  if s.failure is not None:
    if s.failure[0] == 'deadlock':
      r.bad('C12/kill/hang', s.failure[1][:400])
      return r, s.k
    raise RuntimeError('scheduler failure: %r' % (s.failure,))
  if exc is not None:
    r.bad('C12/kill/exception-escaped/%s' % type(exc).__name__, 'main saw %r; log %r' % (exc, log))
    return r, s.k
  idx = {}
  for i, e in enumerate(log):
    idx.setdefault(e[0], i)
  seen = [e[1] for e in log if e[0] == 'termination-seen-in']
  for where in seen:
    if where != 'body':
      r.bad('C12/kill/termination-outside-body/%s' % where, 'ThreadTerminationError observed in %s; log %r' % (where, log))
  first_kill_exit = idx.get('kill-exit')
  if first_kill_exit is not None and first_kill_exit < idx.get('start', 10**9) and 'body-begin' in idx:
    r.bad('C12/kill/body-ran-after-kill-before-start', 'kill() returned before start() but the body ran; log %r' % (log,))
  # a kill that has completed before the body began (whether before or after start()) prevents the body:
  # kill() found the thread proc not running and relies on run() testing _killed under the running lock
  if first_kill_exit is not None and 'body-begin' in idx and first_kill_exit < idx['body-begin'] and not (
      first_kill_exit < idx.get('start', 10**9)):
    r.bad('C12/kill/body-ran-after-kill-before-body', 'kill() returned before the body began, yet the body ran; log %r' % (log,))
  # a kill entirely inside the body with >= 2 steps left
  steps = [i for i, e in enumerate(log) if e[0] == 'body-step']
  ke, kx = idx.get('kill-enter'), idx.get('kill-exit')
  if ke is not None and kx is not None and 'body-begin' in idx and idx['body-begin'] < ke:
    done_steps = len([i for i in steps if i < kx])
    if done_steps <= 2 and ('body-end',) in log and ke > idx['body-begin']:
      r.bad('C12/kill/body-survived-kill', 'kill() completed while the body had %d steps left, yet it finished; log %r' % (4 - done_steps, log))
  if ('finish-exit',) not in log and ('start',) in log:
    r.bad('C12/kill/finish-handler-incomplete', 'log %r' % (log,))
  # non-trivial: kill lands within two log entries of a state change of the victim
  r.nontrivial = False
  if ke is not None:
    for name in ('start', 'body-begin', 'body-end', 'exc-handler-enter', 'finish-enter', 'finish-exit'):
      if name in idx and abs(idx[name] - ke) <= 2:
        r.nontrivial = True
  if case['kill_before_start']:
    r.nontrivial = True
  return r, s.k


def enum_plans(n, bound, shard, nshards, choices=(0, 1)):
  i = 0
  for b in range(0, bound + 1):
    for ks in itertools.combinations(range(n), b):
      for cs in itertools.product(choices, repeat=b):
        i += 1
        if i % nshards == shard:
          yield dict(zip(ks, cs))


_WARM = []



# ------------------------------------------------------------------ domain 3: an abandoned body that owns a helper thread
def monitored_case(case):
  """case = {'monitored': 1, 't': float, 'same_name': bool, 'pos': 'main'|'alone'}: the phase under test is wrapped by
  monitors.monitors() and never returns; its monitor thread therefore outlives the phase.  The phase that runs next is
  monitored too (same or different measurement name)."""
  def fn(s):
    htf = ohtf.reset_case(cancel_timeout_s=0.5, plug_teardown_timeout_s=0.5)
    vmode.quiet_logging()
    from openhtf.core import monitors  # pylint: disable=g-import-not-at-top
    from openhtf.util import threads  # pylint: disable=g-import-not-at-top
    counts = {'a': 0, 'b': 0}

    def mon_a(test):
      counts['a'] += 1
      return 1000 + counts['a']

    def mon_b(test):
      counts['b'] += 1
      return 2000 + counts['b']

    @htf.PhaseOptions(timeout_s=case['t'])
    @monitors.monitors('temp', mon_a, poll_interval_ms=100)
    def put(test):
      while True:          # blocked in a call the kill does not get through to
        try:
          s.sleep(1e7)
        except threads.ThreadTerminationError:
          pass

    @htf.PhaseOptions(timeout_s=30)
    @monitors.monitors('temp' if case['same_name'] else 'temp2', mon_b, poll_interval_ms=100)
    def nxt(test):
      s.sleep(1.05)

    nodes = [htf.PhaseGroup(main=[put], teardown=[nxt])] if case['pos'] == 'main' else [put]
    test = htf.Test(*nodes)
    if case['pos'] != 'main':
      # after a timeout nothing but teardown runs; a second Test on the same thread plays "the phase that runs next"
      pass
    got = []
    test.add_output_callbacks(got.append)
    test.execute()
    rec = got[0]
    out = {'outcome': rec.outcome.name, 'phases': []}
    for p in rec.phases:
      ms = {}
      for name, m in p.measurements.items():
        ms[name] = [r_[-1] for r_ in m.measured_value.value] if m.measured_value.is_value_set else []
      out['phases'].append((p.name, p.outcome.name, ms))
    return out

  return fn


def check_monitored(case):
  r = CaseResult()
  vmode.setup()
  from openhtf.core import monitors  # pylint: disable=g-import-not-at-top
  V.install_proxies([monitors])
  plan = {int(k): v for k, v in (case.get('plan') or {}).items()}
  s, res, exc = vmode.run(monitored_case(case), plan=plan, time_limit=1e6, watchdog_s=20.0, max_steps=120000)
  r.nontrivial = True
  r.classes = ['monitored-abandoned', 'same-name:%s' % case['same_name'], 'pos:' + case['pos']]
  if s.failure is not None:
    if s.failure[0] in ('deadlock', 'steplimit'):
      r.bad('C12/monitored/hang', '%r: %s' % (case, s.failure[1][:400]))
      return r, s
    raise RuntimeError('scheduler failure: %r' % (s.failure,))
  if exc is not None:
    r.bad('C12/monitored/execute-raised/%s' % type(exc).__name__, '%r: %r' % (case, exc))
    return r, s
  if res['outcome'] != 'TIMEOUT':
    r.bad('C12/timeout/not-reported', '%r: outcome %s' % (case, res['outcome']))
  for name, outcome, ms in res['phases']:
    if name == 'nxt':
      for mname, vals in ms.items():
        foreign = [v for v in vals if v < 2000]
        if foreign:
          r.bad('C12/timeout/late-work-leaked', '%r: the record of the following phase holds %d samples of the abandoned phase\'s monitor in %s (%r ...), next to %d of its own' % (
              case, len(foreign), mname, foreign[:3], len(vals) - len(foreign)))
      if outcome != 'PASS':
        r.bad('C12/timeout/late-work-leaked', '%r: the following phase ended %s: %r' % (case, outcome, ms))
  return r, s


def setup_lines():
  vmode.setup()
  V.monitor_lines(vmode.executor_code_objects())
  if not _WARM:
    # the first run in a process executes one-time initialisation lines; run one case so that yield indices recorded
    # in plans and replay files refer to the steady state
    _WARM.append(1)
    check_timeout({'t': 0.5, 'd': 0.0, 'kind': 'returns', 'pos': 'teardown', 'rot': False})


def plan(tier, seed):
  q = tier == 'quick'
  jobs = []
  nsh = 16
  for sh in range(nsh):
    jobs.append({'kind': 'grid', 'name': 'grid%d' % sh, 'shard': sh, 'nshards': nsh, 'sweep_every': 12 if q else 2, 'seed': seed})
  jobs.append({'kind': 'monitored', 'name': 'monitored'})
  for kb in (True, False):
    for kills in (1, 2):
      if kb and kills == 2:
        continue
      nsh2 = 1 if kb else 8
      for sh in range(nsh2):
        jobs.append({'kind': 'kill', 'name': 'kill.%s.%d.%d' % (kb, kills, sh), 'case': {'kill_before_start': kb, 'kills': kills},
                     'bound': 2 if (q or kills == 2) else 3, 'shard': sh, 'nshards': nsh2})
  return jobs


def run_job(job, acct):
  known = set(job.get('known', ()))
  if job['kind'] == '_regress':
    from vf import runner  # pylint: disable=g-import-not-at-top
    runner.run_regress(sys.modules[__name__], job, acct)
    return
  setup_lines()

  def record(case, r):
    acct.case(case, r.nontrivial, r.classes)
    for sig, detail in r.violations:
      (acct.known if sig in known else acct.violation)(sig, case, detail)

  if job['kind'] == 'monitored':
    for t in (0.5, 3.0):
      for same in (True, False):
        case = {'monitored': 1, 't': t, 'same_name': same, 'pos': 'main'}
        r, _ = check_monitored(case)
        record(case, r)
    acct.exhaustive_parts.append('abandoned monitored phase followed by a monitored teardown phase: timeout x same/different measurement name')
    return
  if job['kind'] == 'grid':
    for i, case in enumerate(timeout_grid()):
      if i % job['nshards'] != job['shard']:
        continue
      r, s0 = check_timeout(dict(case, trace=True))
      record(case, r)
      n = s0.k
      if (i // job['nshards'] + job['seed']) % job['sweep_every'] == 0:
        for k in range(n):
          c2 = dict(case, plan={str(k): 0})
          r2, _ = check_timeout(c2)
          record(c2, r2)
      # the body is descheduled past its deadline at every line of the state-update path it executes (incl. inside the
      # notification lock): the kill reaches it there
      if case['kind'] == 'notifying':
        body_tidx = [e[2] for e in s0.events if e[0] == 'put-start']
        if body_tidx:
          bt = body_tidx[0]
          tt_ = case['t']
          pts = [k for k, tidx, tag in s0.tags if tidx == bt and tag and (
              (tag[0] == 'line' and tag[1] in ('notify_update', 'asdict_with_event')) or tag[0] in ('lock.acquire', 'lock.release'))]
          for k in pts:
            c2 = dict(case, plan={str(k): ['stall', tt_ + 10.0]})
            r2, _ = check_timeout(c2)
            r2.classes.append('stall-in-update')
            record(c2, r2)
      # the body ends by itself right after its deadline while the executor is on its way to kill it
      if case['kind'] in ('returns', 'killable', 'late') and case['d'] != 'inf' and case['t'] in (0.5, 3.0) and not case.get('flag') and \
          abs(case['d'] - (case['t'] + EPS)) < 1e-9 and not case.get('rot'):
        for c2 in kill_stall_variants(case, s0):
          r2, _ = check_timeout(c2)
          record(c2, r2)
      # stalls (the OS deschedules a thread for seconds between two lines): in the phase thread after the body has
      # returned, and in the executor thread; only for bodies that finish before the deadline
      d = float('inf') if case['d'] == 'inf' else case['d']
      tt = case['t'] if case['t'] is not None else 180.0
      if d < tt and case['kind'] in ('returns', 'late') and (i // job['nshards'] + job['seed']) % max(1, job['sweep_every'] // 4) == 0:
        for c2 in stalled_variants(case, s0):
          r2, _ = check_timeout(c2)
          r2.classes.append('stall')
          record(c2, r2)
    if job['shard'] == 0:
      acct.exhaustive_parts.append('timeout grid: t x d x body kind x position (x repeat_on_timeout) enumerated completely under the default schedule')
  else:
    base = job['case']
    s, log, exc = vmode.run(kill_case(base))
    n = s.k + 4
    for plan_ in enum_plans(n, job['bound'], job['shard'], job['nshards']):
      case = dict(base, plan={str(k): v for k, v in plan_.items()})
      r, _ = check_kill(case)
      record(case, r)
    if job['shard'] == 0:
      acct.exhaustive_parts.append('kill vs KillableThread life cycle (%r): all schedules with <=%d preemptions over %d yield points' % (base, job['bound'], n))


def stalled_variants(case, s0):
  """The case with a stall past the deadline at every line the phase thread executes after its body published its outcome,
  and at every line of the executor's join loop (s0 = traced run of the case)."""
  tt = case['t'] if case['t'] is not None else 180.0
  ends = [e for e in s0.events if e[0] == 'put-end']
  if not ends:
    return
  _, k_end, phase_tidx = ends[-1]
  where = {k: (tidx, tag[1], tag[2]) for k, tidx, tag in s0.tags if tag and tag[0] == 'line'}
  pts = [k for k, tidx, tag in s0.tags if tag and tag[0] == 'line' and (
      (tidx == phase_tidx and k > k_end and tag[1] in ('run', '_thread_finished', '_thread_exception', '__exit__')) or
      (tidx == 1 and tag[1] == 'join_or_die'))]
  for k in pts:
    yield dict(case, plan={str(k): ['stall', tt + 10.0]}, expect={str(k): list(where[k])})


def kill_stall_variants(case, s0):
  """The body ends by itself 10 ms after its deadline; the executor, which has found it alive at the deadline, is descheduled
  for 20 ms at every line of its kill path (join_or_die / kill / async_raise / _is_thread_proc_running): the thread is gone
  by the time the asynchronous exception is set."""
  where = {k: (tidx, tag[1], tag[2]) for k, tidx, tag in s0.tags if tag and tag[0] == 'line'}
  pts = [k for k, tidx, tag in s0.tags if tag and tag[0] == 'line' and tidx == 1 and tag[1] in ('kill', 'async_raise', '_is_thread_proc_running', 'join_or_die')]
  for k in pts:
    yield dict(case, plan={str(k): ['stall', 2 * EPS]}, expect={str(k): list(where[k])}, kill_stall=1)


def replay(case):
  setup_lines()
  if case.get('monitored'):
    return check_monitored(case)[0].violations
  if 'kill_before_start' in case:
    return check_kill(case)[0].violations
  return check_timeout(case)[0].violations
