"""C15 - ADB connection lifecycle: CNXN/AUTH handshake automaton, stream ids, open/close histories."""
import itertools
import sys

from hypothesis import strategies as st

from vf import fakes_usb as fk
from vf import hyp
from vf.hyp import CaseResult

ID = 'C15'
LEVEL = 'exploration'
RULE = ('(A) handshake: ALL device reply sequences over {CNXN ok, CNXN with malformed banner, AUTH TOKEN, AUTH of another type, '
        'noise packet (OKAY/WRTE/SYNC/OPEN/CLSE), silence} up to length 4 (quick) / 5 (thorough) x 0-2 keys are enumerated and '
        'compared with a specification automaton written from the statement: exact list of packets the host must send (CNXN; '
        'AUTH SIGNATURE with the k-th key over the last token; AUTH RSAPUBLICKEY with the first key exactly once after every '
        'signature was answered by AUTH; nothing signed for a non-TOKEN challenge) and the class of the result (connection with '
        'the CNXN\'s maxdata/systemtype/serial/banner, or auth / protocol / timeout error).  (B) stream histories (<=14 ops, '
        'Hypothesis): open (device answers OKAY / CLSE / WRTE-first / OKAY for a wrong id / nothing), local close, close twice, '
        'remote close with buffered data, read, write, illegal mid-session packet (CNXN/AUTH/SYNC/OPEN), with STREAM_ID_LIMIT set '
        'to 8 so that id wrap-around, reuse after close and exhaustion are reached; oracle = reference model of open ids / '
        'buffers / expected CLSE packets.  Non-trivial = >=1 AUTH round or noise before CNXN; history with >=2 opens and a '
        'close, a wrap-around, or a remote close with buffered data; distinct by canonical case.  After a close from either side '
        'every byte the host had acknowledged is returned by read() before the stream reports closed.')
ASSUMPTIONS = ['The transport is a scripted fake; a silent device is modelled as an immediate libusb timeout error.',
               'Any error type from the usb_exceptions hierarchy of the right class (auth / protocol / timeout) is accepted; other exception types are violations.']

H_ALPHABET = ['CNXN', 'CNXNBAD', 'TOKEN', 'AUTHX', 'NOISE', 'SILENCE', 'SPAM']
NOISE = [('OKAY', 1, 2, ''), ('WRTE', 1, 2, 'n'), ('SYNC', 0, 0, ''), ('OPEN', 5, 0, 'x\0'), ('CLSE', 1, 2, '')]
TIMEOUT_ERRS = ('UsbReadFailedError', 'AdbTimeoutError')


def replies_of(seq):
  out = []
  for i, s in enumerate(seq):
    if s == 'CNXN':
      out.append(('CNXN', 0x01000000, 256 + i, 'device:SER%d:banner %d' % (i, i)))
    elif s == 'CNXNBAD':
      out.append(('CNXN', 0x01000000, 4096, 'nocolons'))
    elif s == 'TOKEN':
      out.append(('AUTH', 1, 0, 'tok%d' % i))
    elif s == 'AUTHX':
      out.append(('AUTH', 2, 0, 'sig%d' % i))
    elif s == 'NOISE':
      out.append(NOISE[i % len(NOISE)])
    elif s == 'SPAM':
      out.append(('SPAM', 0, 0, ''))
    else:
      out.append(('SILENCE', 0, 0, ''))
  return out


def handshake_reference(seq, nkeys):
  """Returns (expected host packets [(cmd, arg0, payload)], result) where result = ('conn', maxdata, systemtype, serial, banner)
  | ('err', set_of_acceptable_exception_names)."""
  sent = [('CNXN', 0x01000000, 'host::googlex_adb\0')]
  replies = replies_of(seq)
  pos = [0]

  def wait(accept):
    """Next reply whose command is in accept; noise skipped. Returns reply or 'SILENCE'."""
    while True:
      if pos[0] >= len(replies):
        return 'SILENCE'
      rp = replies[pos[0]]
      pos[0] += 1
      if rp[0] == 'SPAM':
        pos[0] -= 1          # unrelated packets until the host's timeout: like silence, the awaited packet never comes
        return 'SILENCE'
      if rp[0] == 'SILENCE':
        return 'SILENCE'
      if rp[0] in accept:
        return rp

  def conn(rp):
    parts = rp[3].split(':', 2)
    if len(parts) != 3:
      return ('err', {'AdbProtocolError'})
    return ('conn', rp[2], parts[0], parts[1], parts[2])

  rp = wait(('AUTH', 'CNXN'))
  if rp == 'SILENCE':
    return sent, ('err', set(TIMEOUT_ERRS))
  if rp[0] == 'CNXN':
    return sent, conn(rp)
  if nkeys == 0:
    return sent, ('err', {'DeviceAuthError'})
  for k in range(nkeys):
    if rp[1] != 1:
      return sent, ('err', {'AdbProtocolError'})
    sent.append(('AUTH', 2, 'S%d|%s' % (k, rp[3])))
    rp = wait(('AUTH', 'CNXN'))
    if rp == 'SILENCE':
      return sent, ('err', set(TIMEOUT_ERRS))
    if rp[0] == 'CNXN':
      return sent, conn(rp)
  sent.append(('AUTH', 3, 'PUB0\0'))
  rp = wait(('CNXN',))
  if rp == 'SILENCE':
    return sent, ('err', set(TIMEOUT_ERRS) | {'DeviceAuthError'})
  return sent, conn(rp)


def check_handshake(case):
  r = CaseResult()
  m = fk.load()
  seq, nkeys = case['seq'], case['keys']
  dev = fk.ScriptedAdbDevice([], handshake=replies_of(seq))
  signlog = []
  keys = [fk.FakeSigner(k, signlog) for k in range(nkeys)]
  try:
    # an endless stream of unrelated packets keeps the host busy for its whole (real-time) timeout: keep that short
    spam = 'SPAM' in seq
    conn = m.adb_protocol.AdbConnection.connect(dev, rsa_keys=keys or None, timeout_ms=120 if spam else 2000, auth_timeout_ms=60 if spam else 200)
    got = ('conn', conn.maxdata, conn.systemtype, conn.serial, conn.banner)
  except Exception as e:  # pylint: disable=broad-except
    got = ('err', type(e).__name__, str(e)[:80])
  want_sent, want = handshake_reference(seq, nkeys)
  host = [(h['cmd'], h['arg0'], payload) for kind, h, payload in [x for x in dev.log if x[0] == 'host']]
  auth_rounds = len([s for s in want_sent if s[0] == 'AUTH'])
  first_final = next((i for i, s in enumerate(seq) if s in ('CNXN', 'CNXNBAD', 'TOKEN', 'AUTHX', 'SILENCE')), len(seq))
  r.nontrivial = auth_rounds >= 1 or 'NOISE' in seq[:first_final]
  r.classes = ['handshake', 'keys:%d' % nkeys, 'auth-rounds:%d' % auth_rounds, 'result:' + (want[0] if want[0] == 'conn' else '|'.join(sorted(want[1])))]
  if host != want_sent:
    k = 0
    while k < min(len(host), len(want_sent)) and host[k] == want_sent[k]:
      k += 1
    w = want_sent[k] if k < len(want_sent) else None
    g = host[k] if k < len(host) else None
    what = 'extra' if w is None else 'missing' if g is None else 'different'
    kind = (g or w)[0] + (':%d' % (g or w)[1] if (g or w)[0] == 'AUTH' else '')
    r.bad('C15/handshake/host-packets/%s-%s' % (what, kind), 'replies %r keys %d: host sent %r, specification %r' % (seq, nkeys, host, want_sent))
  if want[0] == 'conn':
    if got != want:
      r.bad('C15/handshake/%s' % ('no-connection/' + got[1] if got[0] == 'err' else 'wrong-connection-fields'),
            'replies %r keys %d: got %r, expected %r' % (seq, nkeys, got, want))
  else:
    if got[0] == 'conn':
      r.bad('C15/handshake/connection-returned-instead-of-error', 'replies %r keys %d: got %r, expected one of %r' % (seq, nkeys, got, sorted(want[1])))
    elif got[1] not in want[1]:
      r.bad('C15/handshake/wrong-error/%s' % got[1], 'replies %r keys %d: raised %s(%s), expected one of %r' % (seq, nkeys, got[1], got[2], sorted(want[1])))
  return r


# ------------------------------------------------------------------ stream histories
LIMIT = 8


def check_streams(case):
  """case = {'ops': [...]}; ops: ['open', how, wrtes, close] | ['close', i] | ['read', i, length] | ['write', i, n] | ['illegal', kind, i]"""
  r = CaseResult()
  m = fk.load()
  ex = m.usb_exceptions
  ap = m.adb_protocol
  ap.STREAM_ID_LIMIT = LIMIT
  script = []   # filled in right before each open: the device assigns scripts by the order of the OPENs it receives
  dev = fk.ScriptedAdbDevice(script, maxdata=16, max_block_s=0.05)
  try:
    conn = ap.AdbConnection.connect(dev, timeout_ms=1000)
  except Exception as e:  # pylint: disable=broad-except
    r.bad('C15/streams/connect-raised', repr(e))
    return r
  streams = []     # per successful/attempted open: dict(stream, local, model...)
  open_ids = {}    # local id -> index into streams
  flags = {'opens': 0, 'closes': 0, 'wrap': False, 'remote_close_buffered': False, 'exhausted': False}
  last_id = 0
  n_open_attempts = 0
  for k, op in enumerate(case['ops']):
    kind = op[0]
    when = 'op %d %r' % (k, op)
    if kind == 'open':
      how = op[1]
      idx = len(dev.streams)
      while len(script) <= idx:
        script.append({})
      script[idx] = {'open': op[1], 'wrtes': list(op[2]), 'close': bool(op[3])}
      before_hosts = len([x for x in dev.log if x[0] == 'host'])
      try:
        # the device answers at once except in the silent cases: a generous real-time bound keeps a loaded machine
        # from turning into a spurious timeout
        s = conn.open_stream('svc%d:' % idx, timeout_ms=150 if how in ('WRONGID', 'SILENT') else 5000)
        got = ('stream', s)
      except Exception as e:  # pylint: disable=broad-except
        got = ('err', type(e).__name__, str(e)[:80])
      opens = [x for x in dev.log[0:] if x[0] == 'host' and x[1]['cmd'] == 'OPEN']
      sent_open = len(opens) > n_open_attempts
      dev_closed = {x[3] for x in dev.log if x[0] == 'dev' and x[1] == 'CLSE'}   # ids the device closed: the host may have released them
      definitely_open = {i for i in open_ids if i not in dev_closed}
      if len(definitely_open) >= LIMIT - 1:
        flags['exhausted'] = True
        if got[0] != 'err' or got[1] != 'AdbStreamUnavailableError':
          r.bad('C15/streams/id-exhaustion', '%s: all %d ids in use but open_stream gave %r' % (when, LIMIT - 1, got[:2]))
        if sent_open:
          n_open_attempts += 1
          streams.append({'stream': None, 'local': opens[-1][1]['arg0'], 'state': 'failed', 'buf': '', 'script': script[idx] if idx < len(script) else {}})
        continue
      if not sent_open and got[0] == 'err' and got[1] == 'AdbStreamUnavailableError' and len(open_ids) >= LIMIT - 1:
        flags['exhausted'] = True   # ids the device closed are not released before the host reads the CLSE: legitimate
        continue
      if not sent_open:
        r.bad('C15/streams/no-OPEN-sent', '%s: open_stream did not send OPEN (%r)' % (when, got[:2]))
        continue
      n_open_attempts += 1
      flags['opens'] += 1
      local = opens[-1][1]['arg0']
      if local == 0 or local >= LIMIT:
        r.bad('C15/streams/id-out-of-range', '%s: OPEN used local id %d (limit %d)' % (when, local, LIMIT))
      if local in definitely_open:
        r.bad('C15/streams/id-reused-while-open', '%s: local id %d is still in use by an open stream' % (when, local))
      if local <= last_id:
        flags['wrap'] = True
      last_id = local
      ent = {'stream': None, 'local': local, 'remote': 100 + idx, 'state': 'failed', 'buf': '', 'script': script[idx] if idx < len(script) else {}, 'dev_closed': False,
             'clse_expected': 0}
      streams.append(ent)
      if how == 'OKAY':
        if got[0] != 'stream' or got[1] is None:
          r.bad('C15/streams/open-failed-after-OKAY', '%s: device answered OKAY but open_stream gave %r' % (when, got[:2]))
        else:
          ent['stream'] = got[1]
          ent['state'] = 'open'
          open_ids[local] = len(streams) - 1
      elif how == 'CLSE':
        if got != ('stream', None):
          r.bad('C15/streams/CLSE-reply-yields-stream', '%s: device refused with CLSE but open_stream gave %r' % (when, got[:2]))
      elif how == 'WRTE':
        if got[0] != 'err' or got[1] != 'AdbProtocolError':
          r.bad('C15/streams/WRTE-before-OKAY-accepted', '%s: device sent WRTE before OKAY; open_stream gave %r' % (when, got[:2]))
        # the id stays allocated in the connection's map (never released by the code): track it as in use
        open_ids[local] = len(streams) - 1
        ent['state'] = 'zombie'
      else:  # WRONGID / SILENT: no usable answer
        if got[0] == 'stream' and got[1] is not None:
          r.bad('C15/streams/usable-without-OKAY', '%s: no OKAY for this stream but open_stream returned a stream' % when)
        elif got[0] == 'err' and got[1] not in ('AdbTimeoutError', 'UsbReadFailedError', 'AdbProtocolError'):
          r.bad('C15/streams/open-wrong-error/%s' % got[1], '%s: %r' % (when, got))
        open_ids[local] = len(streams) - 1
        ent['state'] = 'zombie'
    elif kind in ('close', 'read', 'write', 'drain'):
      live = [e for e in streams if e['stream'] is not None]
      if not live:
        continue
      ent = live[op[1] % len(live)]
      s = ent['stream']
      if any(e is not ent and e['local'] == ent['local'] and streams.index(e) > streams.index(ent) for e in streams):
        continue  # a stale stream object whose id has since been reused by a newer stream: outside the statement
      if kind == 'close':
        before = count_host(dev, 'CLSE', ent['local'], ent.get('remote'))
        try:
          s.close(timeout_ms=100)
        except Exception as e:  # pylint: disable=broad-except
          r.bad('C15/streams/close-raised/%s' % type(e).__name__, '%s: %r' % (when, e))
        after = count_host(dev, 'CLSE', ent['local'], ent.get('remote'))
        if ent['state'] == 'open':
          flags['closes'] += 1
          ent['state'] = 'closed'
          open_ids.pop(ent['local'], None)
          if after != 1:
            r.bad('C15/streams/CLSE-count', '%s: %d CLSE packets for stream %d after a local close (expected exactly 1)' % (when, after, ent['local']))
        elif after != before:
          r.bad('C15/streams/CLSE-count', '%s: closing an already closed stream sent another CLSE (%d -> %d)' % (when, before, after))
      elif kind == 'drain':
        # the other way of reading: the read_until_close() generator
        sc = ent['script']
        chunks, err = [], None
        try:
          for c in s.read_until_close(timeout_ms=120):
            chunks.append(c)
            if len(chunks) > 50:
              break
        except Exception as e:  # pylint: disable=broad-except
          err = (type(e).__name__, str(e)[:60])
        all_data = ''.join(sc.get('wrtes', []))
        consumed = ent.setdefault('consumed', 0)
        remaining = all_data[consumed:]
        d = ''.join(chunks)
        flags['drains'] = flags.get('drains', 0) + 1
        if not remaining.startswith(d):
          r.bad('C15/streams/read-wrong-data', '%s: read_until_close() yielded %r, stream has %r left' % (when, d[:30], remaining[:30]))
        ent['consumed'] = consumed = consumed + len(d)
        if err is not None:
          if err[0] not in ('AdbTimeoutError', 'UsbReadFailedError'):
            r.bad('C15/streams/read-wrong-error/%s' % err[0], '%s: read_until_close() raised %r' % (when, err))
        else:
          # the generator ended: the stream reported closed
          acked = ''.join(sc.get('wrtes', [])[:count_host(dev, 'OKAY', ent['local'], ent.get('remote'))])
          if len(acked) > consumed:
            r.bad('C15/streams/buffered-data-not-drained', '%s: read_until_close() on a stream in state %s ended, but %r was received and acknowledged and never yielded' % (
                when, ent['state'], acked[consumed:][:30]))
          if ent['state'] == 'open' and not sc.get('close'):
            r.bad('C15/streams/closed-error-on-open-stream', '%s: read_until_close() ended although the stream is open on both sides' % when)
          if ent['state'] == 'open' and sc.get('close'):
            if all_data[consumed:]:
              r.bad('C15/streams/data-lost-at-remote-close', '%s: read_until_close() ended with %r undelivered' % (when, all_data[consumed:][:30]))
            n = count_host(dev, 'CLSE', ent['local'], ent.get('remote'))
            if n != 1:
              r.bad('C15/streams/CLSE-count', '%s: remote close answered with %d CLSE packets (expected exactly 1)' % (when, n))
            ent['state'] = 'closed'
            open_ids.pop(ent['local'], None)
      elif kind == 'read':
        sc = ent['script']
        if ent['state'] != 'open' and any(e is not ent and e['local'] == ent['local'] and streams.index(e) > streams.index(ent) for e in streams):
          continue  # use-after-close of a stream object whose id has been reused by a newer stream: outside the statement
        try:
          data = s.read(length=op[2], timeout_ms=120)
          got = ('data', data)
        except Exception as e:  # pylint: disable=broad-except
          got = ('err', type(e).__name__, str(e)[:60])
        all_data = ''.join(sc.get('wrtes', []))
        consumed = ent.setdefault('consumed', 0)
        remaining = all_data[consumed:]
        if got[0] == 'data':
          d = got[1]
          if not d or not remaining.startswith(d):
            r.bad('C15/streams/read-wrong-data', '%s: read %r, stream has %r left' % (when, d[:30], remaining[:30]))
          ent['consumed'] = consumed + len(d)
          if op[2] and len(d) != op[2]:
            r.bad('C15/streams/read-wrong-length', '%s: asked %d got %d' % (when, op[2], len(d)))
        else:
          ok_errs = {'AdbTimeoutError', 'UsbReadFailedError', 'AdbStreamClosedError'}
          if got[1] not in ok_errs:
            r.bad('C15/streams/read-wrong-error/%s' % got[1], '%s: %r' % (when, got))
          if got[1] == 'AdbStreamClosedError':
            # whichever side closed: what the host had already received (= acknowledged with an OKAY) is buffered data and
            # is drained before the stream reports closed
            acked = ''.join(sc.get('wrtes', [])[:count_host(dev, 'OKAY', ent['local'], ent.get('remote'))])
            if len(acked) > consumed and (not op[2] or len(acked) - consumed >= op[2]):
              r.bad('C15/streams/buffered-data-not-drained', '%s: stream (state %s) reported closed, but %r was received and acknowledged and never returned by read()' % (
                  when, ent['state'], acked[consumed:][:30]))
            if ent['state'] == 'open' and not sc.get('close'):
              r.bad('C15/streams/closed-error-on-open-stream', '%s: stream is open on both sides' % when)
            if ent['state'] == 'open' and sc.get('close') and remaining and (not op[2] or len(remaining) >= op[2]):
              r.bad('C15/streams/data-lost-at-remote-close', '%s: reported closed with %r undelivered' % (when, remaining[:30]))
            if ent['state'] == 'open' and sc.get('close'):
              flags['remote_close_buffered'] = flags['remote_close_buffered'] or bool(all_data)
              n = count_host(dev, 'CLSE', ent['local'], ent.get('remote'))
              if n != 1:
                r.bad('C15/streams/CLSE-count', '%s: remote close answered with %d CLSE packets (expected exactly 1)' % (when, n))
              ent['state'] = 'closed'
              open_ids.pop(ent['local'], None)
      else:
        if ent['state'] != 'open':
          continue
        payload = 'w' * op[2]
        try:
          s.write(payload, timeout_ms=150)
          got = ('ok',)
        except Exception as e:  # pylint: disable=broad-except
          got = ('err', type(e).__name__, str(e)[:60])
        if got[0] == 'err' and got[1] not in ('AdbTimeoutError', 'UsbReadFailedError', 'AdbStreamClosedError', 'AdbProtocolError'):
          r.bad('C15/streams/write-wrong-error/%s' % got[1], '%s: %r' % (when, got))
    elif kind == 'illegal':
      live = [e for e in streams if e['stream'] is not None and e['state'] == 'open' and not e['script'].get('close')]
      if not live:
        continue
      ent = live[op[2] % len(live)]
      cmd = op[1]
      with dev.cond:
        # the packet carries whatever text a device may send (the error message quotes it)
        dev._emit(cmd, 1, ent['local'] if cmd != 'OPEN' else 0, ['x', 'battery=100%', '%d items', 'x%sy'][(k + op[2]) % 4] if cmd in ('CNXN', 'AUTH', 'OPEN') else '')  # pylint: disable=protected-access
      try:
        # the packet is already waiting: the bound only matters on a machine too busy to get to it (real time)
        ent['stream'].read(length=0, timeout_ms=3000)
        got = ('data',)
      except Exception as e:  # pylint: disable=broad-except
        got = ('err', type(e).__name__, str(e)[:60])
      if got != ('data',) and got[1] in ('AdbTimeoutError', 'UsbReadFailedError') and dev.out:
        flags['inconclusive-timeout'] = True      # ran out of (real) time before the packet was even read: decides nothing
      elif got != ('data',) and got[1] != 'AdbProtocolError':
        # buffered data may legitimately be returned before the illegal packet is reached
        r.bad('C15/streams/illegal-packet-wrong-error/%s' % got[1], '%s: mid-session %s raised %s(%s), expected AdbProtocolError' % (when, cmd, got[1], got[2]))
      elif got == ('data',) and not ''.join(ent['script'].get('wrtes', []))[ent.get('consumed', 0):]:
        r.bad('C15/streams/illegal-packet-accepted', '%s: mid-session %s was accepted silently' % (when, cmd))
      break  # the session is unusable after a protocol error
  for v in dev.violations:
    r.bad('C15/streams/device-saw-protocol-violation', v)
  r.nontrivial = (flags['opens'] >= 2 and flags['closes'] >= 1) or flags['wrap'] or flags['remote_close_buffered'] or flags['exhausted']
  r.classes = ['streams'] + [k for k, v in flags.items() if v and not isinstance(v, int) or (isinstance(v, bool) and v)] + ['opens:%d' % min(flags['opens'], 8)]
  return r


def count_host(dev, cmd, local, remote=None):
  # local ids are re-used once a stream is gone (LIMIT is small here): a packet belongs to a stream by both of its ids
  return len([x for x in dev.log if x[0] == 'host' and x[1]['cmd'] == cmd and x[1]['arg0'] == local and (remote is None or x[1]['arg1'] == remote)])


@st.composite
def stream_cases(draw):
  n = draw(st.integers(2, 14))
  ops = []
  for _ in range(n):
    kind = draw(st.sampled_from(['open', 'open', 'open', 'open', 'close', 'close', 'read', 'read', 'write', 'illegal', 'drain']))
    if kind == 'open':
      how = draw(st.sampled_from(['OKAY'] * 8 + ['CLSE', 'WRTE', 'WRONGID', 'SILENT']))
      wr = draw(st.lists(st.text(alphabet='abcdef', min_size=1, max_size=5), max_size=2)) if how == 'OKAY' else []
      ops.append(['open', how, wr, draw(st.booleans()) if how == 'OKAY' else False])
    elif kind == 'close':
      ops.append(['close', draw(st.integers(0, 7))])
    elif kind == 'read':
      ops.append(['read', draw(st.integers(0, 7)), draw(st.sampled_from([0, 0, 1, 3]))])
    elif kind == 'drain':
      ops.append(['drain', draw(st.integers(0, 7))])
    elif kind == 'write':
      ops.append(['write', draw(st.integers(0, 7)), draw(st.sampled_from([1, 16, 17, 40]))])
    else:
      ops.append(['illegal', draw(st.sampled_from(['CNXN', 'AUTH', 'SYNC', 'OPEN'])), draw(st.integers(0, 7))])
  return {'ops': ops}


def many_opens_case(extra):
  """Deterministic wrap-around / exhaustion histories."""
  ops = [['open', 'OKAY', [], False] for _ in range(LIMIT - 1)] + [['open', 'OKAY', [], False]]
  ops += [['close', extra % 7], ['open', 'OKAY', [], False], ['close', (extra + 3) % 7], ['close', (extra + 3) % 7], ['open', 'OKAY', ['ab'], True], ['read', 6, 0], ['read', 6, 0]]
  return {'ops': ops}


def plan(tier, seed):
  maxlen = 4 if tier == 'quick' else 5
  jobs = [{'kind': 'handshake', 'name': 'hs%d' % s, 'shard': s, 'nshards': 8, 'maxlen': maxlen} for s in range(8)]
  for i in range(8):
    jobs.append({'kind': 'streams', 'name': 'st%d' % i, 'hseed': seed * 1000 + i, 'n': 60 if tier == 'quick' else 1500})
  return jobs


def run_job(job, acct):
  known = set(job.get('known', ()))
  if job['kind'] == '_regress':
    from vf import runner  # pylint: disable=g-import-not-at-top
    runner.run_regress(sys.modules[__name__], job, acct)
  elif job['kind'] == 'handshake':
    i = 0
    for n in range(0, job['maxlen'] + 1):
      for seq in itertools.product(H_ALPHABET, repeat=n):
        if 'SPAM' in seq[:-1]:
          continue      # nothing after the start of the endless stream is ever sent
        for keys in (0, 1, 2):
          i += 1
          if i % job['nshards'] != job['shard']:
            continue
          case = {'seq': list(seq), 'keys': keys}
          r = check_handshake(case)
          acct.case(case, r.nontrivial, r.classes)
          for sig, detail in r.violations:
            (acct.known if sig in known else acct.violation)(sig, case, detail)
    if job['shard'] == 0:
      acct.exhaustive_parts.append('handshake: all reply sequences over %r up to length %d x keys in {0,1,2}' % (H_ALPHABET, job['maxlen']))
  else:
    if job['hseed'] % 1000 == 0:
      for extra in range(7):
        case = many_opens_case(extra)
        r = check_streams(case)
        acct.case(case, r.nontrivial, r.classes)
        for sig, detail in r.violations:
          (acct.known if sig in known else acct.violation)(sig, case, detail)
    hyp.search(acct, stream_cases(), check_streams, seed=job['hseed'], max_examples=job['n'], known=known, shrink_budget_s=40)


def replay(case):
  if 'seq' in case:
    return check_handshake(case).violations
  return check_streams(case).violations
