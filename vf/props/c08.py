"""C08 - plug lifecycle: one instance per run, tearDown exactly once, always (fault enumeration over plug faults)."""
import copy
import sys
import threading

from hypothesis import strategies as st

from vf import hyp
from vf import progs
from vf import rmode
from vf.hyp import CaseResult

ID = 'C08'
LEVEL = 'fault_enumeration'
RULE = ('Base case = generated program (free grammar, incl. terminal phases, timeouts, terminal test_start) with 1-4 '
        'instrumented plug classes (one may subclass another; a class may be requested under two argument names; '
        'update_kwargs=False; a placeholder substituted with with_plugs) assigned to phases and to test_start.  For every base '
        'case ALL single plug faults are enumerated: constructor of class k raises, tearDown of class k raises, tearDown of '
        'class k hangs (plug_teardown_timeout_s), plus one drawn double fault; each variant is one evaluation.  Oracle = '
        'invariants over the event log written by the plug classes and phase bodies (each class constructed <=1x, same '
        'instance under the requested name in every phase, every constructed instance torn down exactly once after the last '
        'phase/diagnoser event and before the first output callback, constructor failure => ERROR and no later phase body, '
        'only test_start plugs exist while test_start runs) and a differential: a tearDown fault does not change outcome or '
        'records w.r.t. the fault-free run.  Virtual-time parts: every subset of 1-3 plugs whose tearDown blocks uninterruptibly; and a '
        'tearDown that returns while it is being abandoned, with the executor stalled for 2 ms at every line of tear_down_plugs / '
        'kill / async_raise.  Non-trivial = >=2 plug classes and >=1 injected fault; distinct by canonical case.')
ASSUMPTIONS = [
    'initialize_plugs iterates a set: faults are attached to a class, no oracle depends on construction order.',
    'A hanging tearDown is bounded with plug_teardown_timeout_s=0.05 (a bound on a hang, not a correctness signal).',
]

_BASE = {'threads': None}


@st.composite
def base_cases(draw):
  prog = draw(progs.programs(strict=False, max_nodes=8, maxdepth=2, with_test_start=False))
  nplug = draw(st.integers(1, 4))
  specs = []
  for i in range(nplug):
    base = draw(st.integers(0, i - 1)) if i > 0 and draw(st.integers(0, 3)) == 0 else None
    specs.append({'ctor': 'ok', 'td': 'ok', 'base': base, 'td_kind': draw(st.sampled_from(['method', 'method', 'method', 'callable', 'instance']))})
  phases = progs.all_phases(prog)
  ts = None
  if draw(st.integers(0, 2)) == 0:
    ts = progs.phase(99, draw(st.sampled_from(['NONE', 'NONE', 'NONE', 'FAIL_AND_CONTINUE', 'STOP', 'RAISE_O'])))
    prog['test_start'] = ts
    phases = [ts] + phases
  used = False
  for p in phases:
    n = draw(st.sampled_from([0, 1, 1, 2, 3]))
    pl = []
    for j in range(n):
      idx = draw(st.integers(0, nplug - 1))
      pl.append(['a%d' % j, idx, draw(st.integers(0, 5)) != 0] + (['ph'] if draw(st.integers(0, 7)) == 0 else []))
      used = True
    if pl:
      p['plugs'] = pl
      if draw(st.integers(0, 7)) == 0:
        p['shadow_args'] = True

  if not used and phases:
    phases[-1]['plugs'] = [['a0', 0, True]]
  prog['plugs'] = specs
  prog['opts']['callbacks'] = [0]
  return prog


def variants(prog, extra):
  """All single plug faults (+ the fault-free run first)."""
  out = [('none', prog)]
  for k in range(len(prog['plugs'])):
    for field, val in (('ctor', 'raise'), ('td', 'raise'), ('td', 'hang')):
      v = copy.deepcopy(prog)
      v['plugs'][k][field] = val
      out.append(('%s-%s-%d' % (field, val, k), v))
  if prog['plugs']:
    v = copy.deepcopy(prog)
    v['plugs'][extra[0] % len(prog['plugs'])]['ctor'] = 'raise-exit'     # SystemExit: a BaseException, not an Exception
    out.append(('ctor-raise-exit-%d' % (extra[0] % len(prog['plugs'])), v))
    v = copy.deepcopy(prog)
    v['plugs'][extra[1] % len(prog['plugs'])]['ctor'] = 'sets-logger'    # rejected after construction: still a constructed instance
    out.append(('ctor-sets-logger-%d' % (extra[1] % len(prog['plugs'])), v))
  if len(prog['plugs']) >= 2:
    k1, k2, f1, f2 = extra
    k1 %= len(prog['plugs'])
    k2 %= len(prog['plugs'])
    if k1 != k2:
      v = copy.deepcopy(prog)
      v['plugs'][k1]['td'] = f1
      v['plugs'][k2]['ctor' if f2 == 'ctor' else 'td'] = 'raise'
      out.append(('double-%d%s-%d%s' % (k1, f1, k2, f2), v))
  return out


def used_classes(prog):
  """class index -> set of (pid, argname, update_kwargs)."""
  used = {}
  for p in progs.all_phases(prog):
    for spec in p.get('plugs') or []:
      used.setdefault(spec[1], set()).add((p['id'], spec[0], spec[2] if len(spec) > 2 else True))
  return used


def run(prog):
  if _BASE['threads'] is None:
    _BASE['threads'] = threading.active_count()
  obs = rmode.run_program(prog, before_execute=None)
  if threading.active_count() > _BASE['threads'] + 4:
    rmode.settle_threads(_BASE['threads'])
  return obs


def lifecycle_violations(prog, obs):
  v = []
  ev = obs.events
  timeout_pids = {p['id'] for p in progs.all_phases(prog) if p['o'].get('to') == 0}
  used = used_classes(prog)
  ts = prog.get('test_start')
  ts_classes = {spec[1] for spec in (ts.get('plugs') or [])} if ts and ts.get('t') == 'phase' else set()
  enter, ok, td = {}, {}, {}
  for i, e in enumerate(ev):
    if e[0] == 'plug-ctor-enter':
      enter.setdefault(e[1], []).append(i)
    elif e[0] == 'plug-ctor-ok':
      ok.setdefault(e[1], []).append((i, e[2]))
    elif e[0] == 'plug-td':
      td.setdefault(e[1], []).append((i, e[2]))
  for k, idxs in enter.items():
    if len(idxs) > 1:
      v.append(('C08/constructed-twice', 'plug class %d constructed %d times' % (k, len(idxs))))
    if k not in used:
      v.append(('C08/unrequested-plug-constructed', 'plug class %d is not required by any phase but was constructed' % k))
  serial_of = {k: [s for _, s in lst] for k, lst in ok.items()}
  # same instance under the requested name
  spec_of = {(p['id'], spec[0]): spec for p in progs.all_phases(prog) for spec in (p.get('plugs') or [])}
  for e in ev:
    if e[0] != 'plugs':
      continue
    pid = e[1]
    got = {a: (idx, serial) for a, idx, serial in e[3]}
    want = {a: spec for (q, a), spec in spec_of.items() if q == pid and (spec[2] if len(spec) > 2 else True)}
    if set(got) != set(want):
      v.append(('C08/wrong-plug-arguments', 'phase p%d received plug args %r, declared %r' % (pid, sorted(got), sorted(want))))
      continue
    for a, (idx, serial) in got.items():
      if idx != want[a][1]:
        v.append(('C08/wrong-plug-class', 'phase p%d arg %s: class %d, declared %d' % (pid, a, idx, want[a][1])))
      elif serial_of.get(idx) != [serial]:
        v.append(('C08/not-the-run-instance', 'phase p%d arg %s: instance serial %r, constructed serials %r' % (pid, a, serial, serial_of.get(idx))))
  # phases that declare update_kwargs plugs but logged no 'plugs' event although they ran
  for e in ev:
    if e[0] == 'body' and e[1] not in timeout_pids:
      want = [a for (q, a), spec in spec_of.items() if q == e[1] and (spec[2] if len(spec) > 2 else True)]
      if want and not any(x[0] == 'plugs' and x[1] == e[1] and x[2] == e[2] for x in ev):
        v.append(('C08/wrong-plug-arguments', 'phase p%d ran without its plugs %r' % (e[1], want)))
  # every constructed instance torn down exactly once
  for k, lst in ok.items():
    for _, serial in lst:
      n = sum(1 for _, s in td.get(k, []) if s == serial)
      if n != 1:
        v.append(('C08/teardown-%s' % ('missing' if n == 0 else 'repeated'), 'plug class %d instance %r: tearDown called %d times' % (k, serial, n)))
  for k, lst in td.items():
    for _, s in lst:
      if s is None or s not in serial_of.get(k, []):
        v.append(('C08/teardown-of-unconstructed', 'tearDown of plug class %d on an instance that was never fully constructed' % k))
  # ordering: all tearDowns after the last phase/diagnoser event and before the first callback
  work = [i for i, e in enumerate(ev) if (e[0] == 'body' and e[1] not in timeout_pids) or e[0] in ('diag', 'tdiag', 'run_if', 'test_start_lambda')]
  cbs = [i for i, e in enumerate(ev) if e[0] == 'cb']
  ctor_fail = [k for k in enter if k not in ok]
  if not ctor_fail:
    for k, lst in td.items():
      for i, _ in lst:
        if work and i < max(work):
          v.append(('C08/teardown-before-last-phase', 'tearDown of plug %d at event %d, later phase/diagnoser event at %d' % (k, i, max(work))))
  for k, lst in td.items():
    for i, _ in lst:
      if cbs and i > min(cbs):
        v.append(('C08/teardown-after-callback', 'tearDown of plug %d at event %d after first output callback at %d' % (k, i, min(cbs))))
  # constructor failure => ERROR, no later phase body
  if ctor_fail:
    first_fail = min(enter[k][0] for k in ctor_fail)
    later = [e for i, e in enumerate(ev) if i > first_fail and e[0] == 'body' and e[1] not in timeout_pids]
    if later:
      v.append(('C08/phase-after-ctor-failure', 'plug constructor %r failed but phase bodies ran afterwards: %r' % (ctor_fail, later)))
    if obs.record is not None and obs.record['outcome'] != 'ERROR':
      v.append(('C08/ctor-failure-outcome', 'plug constructor %r failed but outcome is %s' % (ctor_fail, obs.record['outcome'])))
  # while test_start runs only its plugs exist
  if ts and ts.get('t') == 'phase':
    ts_body = [i for i, e in enumerate(ev) if e[0] == 'body' and e[1] == ts['id']]
    if ts_body:
      early = {e[1] for i, e in enumerate(ev) if e[0] == 'plug-ctor-enter' and i < max(ts_body)}
      if early - ts_classes:
        v.append(('C08/plugs-before-test_start', 'plug classes %r constructed before test_start finished (test_start needs %r)' % (
            sorted(early - ts_classes), sorted(ts_classes))))
  return v


def summary(obs):
  rec = obs.record
  return (rec['outcome'], [(p['name'], p['outcome'], p['result']) for p in rec['phases']], obs.ret)


def apply_placeholder(prog):
  return prog


def check(case):
  """case = {'prog': base program, 'extra': [k1, k2, f1, f2]}"""
  r = CaseResult()
  prog = case['prog']
  vs = variants(prog, case['extra'])
  base_summary = None
  nclasses = len(prog['plugs'])
  r.classes = ['plugs:%d' % nclasses] + (['test_start'] if prog.get('test_start') else [])
  r.nontrivial = nclasses >= 2
  r_sub = []
  for name, v in vs:
    obs = run(v)
    if obs.record is None:
      r.bad('C08/no-record', '[%s] execute() raised %r' % (name, obs.exc))
      continue
    for sig, detail in lifecycle_violations(v, obs):
      r.bad(sig, '[fault %s] %s' % (name, detail))
    if name == 'none':
      base_summary = summary(obs)
    elif name.startswith('td-') and base_summary is not None:
      if summary(obs) != base_summary:
        r.bad('C08/teardown-fault-changes-outcome', '[fault %s] %r vs fault-free %r' % (name, summary(obs), base_summary))
    r_sub.append(name)
  r.classes.append('variants:%d' % len(vs))
  return r, len(vs)


def check1(case):
  return check(case)[0]


@st.composite
def cases(draw):
  return {'prog': draw(base_cases()),
          'extra': [draw(st.integers(0, 3)), draw(st.integers(0, 3)), draw(st.sampled_from(['raise', 'hang'])), draw(st.sampled_from(['ctor', 'td']))]}


def check_unkillable(case):
  """A tearDown that blocks in an uninterruptible call must be abandoned after plug_teardown_timeout_s (virtual time).

  case = {'plugs': n, 'hang': [indices], 'raise_in_phase': bool, 'plan': {k: choice}}
  """
  from vf import ohtf, vmode  # pylint: disable=g-import-not-at-top
  from vf import vsched as V  # pylint: disable=g-import-not-at-top
  r = CaseResult()
  vmode.setup()
  plan = {int(k): v for k, v in (case.get('plan') or {}).items()}

  def fn(s):
    htf = ohtf.reset_case(cancel_timeout_s=0.5, plug_teardown_timeout_s=case.get('ptt', 2.0))
    vmode.quiet_logging()
    log = []
    classes = []
    for i in range(case['plugs']):
      def td(self, i=i):
        log.append(('td', i, s.now))
        if i in case['hang']:
          V.VEvent(s).wait()   # never set: an uninterruptible blocking call - a kill cannot be delivered
          log.append(('td-returned', i))
        elif i in case.get('late', ()):
          s.sleep(2.0 + 0.001)   # overruns plug_teardown_timeout_s by a hair: returns while it is being abandoned
          log.append(('td-returned', i))
        elif i in case.get('slow', ()):
          s.sleep(0.3)           # takes its time; with "no limit" configured it is waited for
          log.append(('td-returned', i))
      classes.append(type('HPlug%d' % i, (htf.plugs.BasePlug,), {'tearDown': td}))

    def body(test, **plugs):
      log.append(('body', s.now))
      if case.get('raise_in_phase'):
        raise progs.ExcO('boom')

    body.__name__ = 'uses_plugs'
    ph = htf.plugs.plug(**{'p%d' % i: c for i, c in enumerate(classes)})(body)
    test = htf.Test(ph)
    got = []
    test.add_output_callbacks(lambda rec: (got.append(rec), log.append(('cb', s.now))))
    ret = test.execute()
    return {'ret': ret, 'log': log, 'outcome': got[0].outcome.name if got else None, 'end': s.now}

  if case.get('late'):
    from openhtf.util import threads as _threads  # pylint: disable=g-import-not-at-top
    V.monitor_lines(V.code_objects_of(_threads.KillableThread, htf_plug_manager()))
  s = V.Scheduler(plan=plan, time_limit=1e5, max_steps=100000, trace=bool(case.get('trace')))
  res, exc = s.run(lambda: fn(s), watchdog_s=20.0)
  r.nontrivial = case['plugs'] >= 2 and bool(case['hang'] or case.get('late'))
  r.classes = ['unkillable-teardown' if not case.get('late') else 'late-teardown', 'plugs:%d' % case['plugs'], 'hangs:%d' % len(case['hang'])]
  r.sched = s
  if s.failure is not None:
    if s.failure[0] in ('deadlock', 'steplimit'):
      r.bad('C08/hang-on-abandoned-teardown', 'execute() never returned: %s case=%r' % (s.failure[1][:400], case))
      return r
    raise RuntimeError('scheduler failure %r' % (s.failure,))
  if exc is not None:
    r.bad('C08/unkillable/raised/%s' % type(exc).__name__, repr(exc))
    return r
  tds = [e[1] for e in res['log'] if e[0] == 'td']
  if sorted(tds) != list(range(case['plugs'])):
    r.bad('C08/teardown-%s' % ('missing' if len(tds) < case['plugs'] else 'repeated'), 'tearDown calls %r with hanging %r; case=%r' % (tds, case['hang'], case))
  want = 'ERROR' if case.get('raise_in_phase') else 'PASS'
  if res['outcome'] != want:
    r.bad('C08/teardown-fault-changes-outcome', 'outcome %s, expected %s; case=%r' % (res['outcome'], want, case))
  if not any(e[0] == 'cb' for e in res['log']):
    r.bad('C08/no-callback-after-hang', repr(res['log']))
  if 'ptt' in case:
    # "Timeout (in seconds) for each plug tearDown function if > 0; otherwise, will wait an unlimited time": 0, a negative
    # value or an empty (None) value all mean that a slow tearDown is waited for
    cb_at = [i for i, e in enumerate(res['log']) if e[0] == 'cb']
    for i in case.get('slow', ()):
      done = [k for k, e in enumerate(res['log']) if e == ('td-returned', i)]
      if not done or (cb_at and done[0] > cb_at[0]):
        r.bad('C08/teardown-not-waited-for-although-unlimited', 'plug_teardown_timeout_s=%r: tearDown of plug %d %s; log=%r' % (
            case['ptt'], i, 'never returned (killed)' if not done else 'returned after the output callback', res['log']))
  bound = 2.0 * (len(case['hang']) + len(case.get('late', ()))) + 5.0
  if res['end'] > bound:
    r.bad('C08/abandon-too-late', 'execute() returned at virtual %.1fs, bound %.1fs' % (res['end'], bound))
  return r


MONITORED_PROGS = [
    # (description, nodes): the monitored phase is the only user of plug 0 / shares it / uses two plugs, one by placeholder
    ('only-user', [dict(progs.phase(1), plugs=[['a0', 0, True]], monitored=True)]),
    ('shared', [dict(progs.phase(1), plugs=[['a0', 0, True]]), dict(progs.phase(2), plugs=[['a0', 0, True]], monitored=True)]),
    ('two-plugs', [dict(progs.phase(1), plugs=[['a0', 0, True], ['a1', 1, True, 'ph']], monitored=True), dict(progs.phase(2), plugs=[['b', 1, True]])]),
    ('not-passed', [dict(progs.phase(1), plugs=[['a0', 0, False]], monitored=True)]),
    ('stacked', [dict(progs.phase(1), plugs=[['a0', 0, True]], monitored=2)]),
    ('stacked-two-plugs', [dict(progs.phase(1), plugs=[['a0', 0, True], ['a1', 1, False]], monitored=2)]),
]


def check_monitored(i):
  """A phase wrapped by openhtf.core.monitors.monitors() still requests its plugs: they are constructed once, handed to the
  body under the requested names, torn down once, and the run passes."""
  r = CaseResult()
  name, nodes = MONITORED_PROGS[i]
  prog = progs.program(copy.deepcopy(nodes))
  prog['plugs'] = [{'ctor': 'ok', 'td': 'ok', 'base': None}, {'ctor': 'ok', 'td': 'ok', 'base': None}]
  prog['opts']['callbacks'] = [0]
  obs = run(prog)
  if obs.record is None:
    r.bad('C08/monitored/no-record', '%s: execute() raised %r' % (name, obs.exc))
    return r
  if obs.record['outcome'] != 'PASS':
    r.bad('C08/monitored/outcome-%s' % obs.record['outcome'], '%s: a passing phase that requests plugs and is wrapped by a monitor: outcome %s, phases %r' % (
        name, obs.record['outcome'], [(p['name'], p['outcome'], p['result']) for p in obs.record['phases']]))
  for sig, detail in lifecycle_violations(prog, obs):
    r.bad(sig.replace('C08/', 'C08/monitored/'), '%s: %s' % (name, detail))
  r.nontrivial = True
  r.classes = ['monitored-phase', name]
  return r


def htf_plug_manager():
  import openhtf.plugs as plugs_  # pylint: disable=g-import-not-at-top
  return plugs_.PlugManager


def plan(tier, seed):
  n = 150 if tier == 'quick' else 2500
  jobs = [{'kind': 'hyp', 'name': 'hyp%d' % i, 'hseed': seed * 1000 + i, 'n': n} for i in range(16)]
  jobs.append({'kind': 'unkillable', 'name': 'unkillable'})
  jobs.append({'kind': 'late', 'name': 'late'})
  jobs.append({'kind': 'unlimited', 'name': 'unlimited'})
  jobs.append({'kind': 'monitored', 'name': 'monitored'})
  return jobs


def run_job(job, acct):
  known = set(job.get('known', ()))
  if job['kind'] == '_regress':
    from vf import runner  # pylint: disable=g-import-not-at-top
    runner.run_regress(sys.modules[__name__], job, acct)
    return
  if job['kind'] == 'unkillable':
    import itertools  # pylint: disable=g-import-not-at-top
    for n in (1, 2, 3):
      for k in range(0, n + 1):
        for hang in itertools.combinations(range(n), k):
          for rip in (False, True):
            case = {'unkillable': 1, 'plugs': n, 'hang': list(hang), 'raise_in_phase': rip}
            r = check_unkillable(case)
            acct.case(case, r.nontrivial, r.classes)
            for sig, detail in r.violations:
              (acct.known if sig in known else acct.violation)(sig, case, detail)
    acct.exhaustive_parts.append('unkillable tearDown: all subsets of hanging plugs for 1-3 plugs x {phase passes, phase raises} (virtual time)')
    return
  if job['kind'] == 'unlimited':
    for ptt in (0, None, -1, -0.5):
      for nplugs, slow in ((1, [0]), (2, [0, 1]), (3, [1])):
        case = {'unkillable': 1, 'plugs': nplugs, 'hang': [], 'slow': slow, 'raise_in_phase': False, 'ptt': ptt}
        r = check_unkillable(case)
        acct.case(case, True, r.classes + ['unlimited-teardown'])
        for sig, detail in r.violations:
          (acct.known if sig in known else acct.violation)(sig, case, detail)
    acct.exhaustive_parts.append('plug_teardown_timeout_s in {0, None, -1, -0.5} ("no limit") x slow tearDowns')
    return
  if job['kind'] == 'monitored':
    for i in range(len(MONITORED_PROGS)):
      r = check_monitored(i)
      case = {'monitored': i}
      acct.case(case, r.nontrivial, r.classes)
      for sig, detail in r.violations:
        (acct.known if sig in known else acct.violation)(sig, case, detail)
    return
  if job['kind'] == 'late':
    # a tearDown that returns while it is being abandoned: the executor is stalled (descheduled for 2 ms) at every
    # line of PlugManager / KillableThread it executes, so that the tearDown thread exits between any two of them
    for nplugs, late in ((2, [0]), (2, [1]), (3, [0, 2])):
      base = {'unkillable': 1, 'plugs': nplugs, 'hang': [], 'late': late, 'raise_in_phase': False}
      r0 = check_unkillable(dict(base, trace=True))
      acct.case(base, r0.nontrivial, r0.classes)
      for sig, detail in r0.violations:
        (acct.known if sig in known else acct.violation)(sig, base, detail)
      pts = [k for k, tidx, tag in r0.sched.tags if tag and tag[0] == 'line' and tag[1] in (
          'kill', 'async_raise', 'tear_down_plugs', '_is_thread_proc_running', 'is_alive')]
      for k in pts:
        case = dict(base, plan={str(k): ['stall', 0.002]})
        r = check_unkillable(case)
        acct.case(case, r.nontrivial, r.classes + ['stall'])
        for sig, detail in r.violations:
          (acct.known if sig in known else acct.violation)(sig, case, detail)
    acct.exhaustive_parts.append('late tearDown: executor stalled 2 ms at every line of tear_down_plugs / kill / async_raise')
    return
  counter = {'variants': 0}

  def chk(case):
    r, n = check(case)
    counter['variants'] += n
    return r

  hyp.search(acct, cases(), chk, seed=job['hseed'], max_examples=job['n'], known=known)
  acct.extra['fault_variants_executed'] += counter['variants']


def replay(case):
  if 'monitored' in case:
    return check_monitored(case['monitored']).violations
  if 'unkillable' in case:
    return check_unkillable(case).violations
  return check1(case).violations
