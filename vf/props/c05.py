"""C05 - phase result -> outcome mapping, repeat limit, run_if: one phase under test, all options x behaviours x positions."""
import itertools
import sys
import threading

from hypothesis import strategies as st

from vf import diff
from vf import hyp
from vf import progs
from vf import rmode
from vf import spec
from vf.hyp import CaseResult

ID = 'C05'
LEVEL = 'exploration'
RULE = ('One phase under test (PUT) placed in a position template {first, after PASS/FAIL/SKIP record, inside a subtest, in '
        'a group teardown, as test_start-follower} x PhaseOptions product (repeat_limit, force_repeat, repeat_on_measurement_fail, '
        'run_if, stop_on_measurement_fail, timeout, body wrapped by monitors.monitors()) x per-invocation behaviour sequences (<=4 invocations; result x measurement '
        'class pass/fail/unset) x diagnoser set {none, pass, failure, raising, raising+failure, garbage} x allow_unset. '
        'Hypothesis draws from the whole product; a decision table (options x 2-invocation behaviours x diagnosers x positions) '
        'is enumerated in seed-selected shards (quick) or completely (thorough).  Oracle: reference interpreter - exact list of '
        'records of the PUT (outcome, result, diagnosis results, measurement outcomes), exact body / run_if / diagnoser '
        'invocation events.  Non-trivial = >=2 options set, or >=2 invocations executed, or a non-default position; distinct by AST.  Aborted invocations (real threads): the test is aborted while the body of a phase with 1-2 diagnosers runs, in 4 positions x 3 delays: outcome ABORTED, the aborted invocation\'s diagnosers do not run and leave no result in phase or test record, a following teardown phase\'s diagnoser runs once; a kill that raced with the executor\'s poll (record says timeout) is classed, not judged.')
ASSUMPTIONS = [
    'Timeout invocations are produced only by timeout_s=0 + blocking body; whether an abandoned body started is not compared.',
]

POSITIONS = ['first', 'after_pass', 'after_fail', 'after_skip', 'in_subtest', 'in_teardown', 'in_branch']
RESULTS = ['NONE', 'CONTINUE', 'FAIL_AND_CONTINUE', 'SKIP', 'REPEAT', 'STOP', 'FAIL_SUBTEST', 'INVALID', 'INVALID_FALSE', 'INVALID_ZERO',
           'INVALID_EMPTY', 'RAISE_O', 'EXIT']
DIAGSETS = {
    'none': [],
    'pass': [{'emit': [[1, False, False]], 'af': False}],
    'fail': [{'emit': [[1, True, False]], 'af': False}],
    'raise': [{'raise': 1}],
    'raise+fail': [{'raise': 1}, {'emit': [[2, True, False]], 'af': False}],
    'garbage': [{'garbage': 1}],
    'internal+alwaysfail': [{'emit': [[0, False, True]], 'af': False}, {'emit': [[3, False, False]], 'af': True}],
    # two instances of one diagnoser class (same name, same result type), the second one reports the failure
    'class-pass+class-fail': [{'emit': [[1, False, False]], 'af': False, 'cls': True}, {'emit': [[2, True, False]], 'af': False, 'cls': True}],
    'class-fail+class-pass': [{'emit': [[2, True, False]], 'af': False, 'cls': True}, {'emit': [[1, False, False]], 'af': False, 'cls': True}],
}
_BASE = {'threads': None}


def place(put, position, allow_unset=False, sof=None):
  ok = lambda i: progs.phase(i)
  if position == 'first':
    nodes = [put, ok(90)]
  elif position == 'after_pass':
    nodes = [ok(91), put, ok(90)]
  elif position == 'after_fail':
    nodes = [progs.phase(91, 'FAIL_AND_CONTINUE'), put, ok(90)]
  elif position == 'after_skip':
    nodes = [progs.phase(91, 'SKIP'), put, ok(90)]
  elif position == 'in_subtest':
    nodes = [{'t': 'subtest', 'id': 80, 'c': [ok(91), put, ok(92)]}, ok(90)]
  elif position == 'in_teardown':
    nodes = [{'t': 'group', 'id': 80, 's': [], 'm': [ok(91)], 'td': [put, ok(92)]}, ok(90)]
  elif position == 'in_branch':
    nodes = [{'t': 'branch', 'id': 80, 'cond': ['NOT_ANY', [0]], 'c': [put, ok(92)]}, ok(90)]
  else:
    raise ValueError(position)
  return progs.program(nodes, allow_unset=allow_unset, sof=sof)


def mk_put(opts, behaviours, diagset, nmeas=1):
  meas = ['m%d' % i for i in range(nmeas)]
  script = []
  for end, mc in behaviours:
    sets = {}
    for i, name in enumerate(meas):
      c = mc if i == 0 else 'p'
      if c != 'u':
        sets[name] = c
    if opts.get('to') == 0:  # a timeout phase: the body may never start, so it sets nothing
      sets, end = {}, 'BLOCK'
    script.append({'sets': sets, 'end': end})
  put = progs.phase(1, m=meas, d=DIAGSETS[diagset], script=script, **{k: v for k, v in opts.items() if k != 'mon'})
  if opts.get('mon') and opts.get('to') != 0:
    put['monitored'] = 'inner'     # @monitors.monitors(...) directly around the body, everything else declared outside
  return put


@st.composite
def cases(draw):
  o = {}
  if draw(st.booleans()):
    o['rl'] = draw(st.sampled_from([1, 2, 3, 4, 5]))
  for k, p in (('fr', 5), ('romf', 3), ('somf', 4)):
    if draw(st.integers(0, p)) == 0:
      o[k] = True
  if draw(st.integers(0, 4)) == 0:
    o['run_if'] = draw(st.sampled_from(['F', 'T', 'X']))
  timeout = draw(st.integers(0, 9)) == 0
  if timeout:
    o['to'] = 0
    if draw(st.booleans()):
      o['rot'] = True
    if (o.get('rot') or o.get('fr')) and (o.get('rl') or 3) > 2:
      o['rl'] = 2
  if not timeout and draw(st.integers(0, 7)) == 0:
    o['mon'] = True
  n = draw(st.integers(1, 4))
  beh = [(draw(st.sampled_from(RESULTS + ['NONE', 'REPEAT', 'REPEAT'])), draw(st.sampled_from('ppfu'))) for _ in range(n)]
  ds = draw(st.sampled_from(sorted(DIAGSETS)))
  pos = draw(st.sampled_from(POSITIONS))
  return {'o': o, 'beh': [list(b) for b in beh], 'diag': ds, 'pos': pos, 'nmeas': draw(st.sampled_from([0, 1, 1, 2])),
          'allow_unset': draw(st.integers(0, 3)) == 0, 'sof': draw(st.sampled_from([None, None, None, 'opt']))}


def to_prog(c):
  put = mk_put(c['o'], [tuple(b) for b in c['beh']], c['diag'], c.get('nmeas', 1))
  return place(put, c['pos'], c.get('allow_unset', False), c.get('sof'))


def check(c):
  r = CaseResult()
  prog = to_prog(c)
  x = spec.expect(prog)
  if _BASE['threads'] is None:
    _BASE['threads'] = threading.active_count()
  obs = rmode.run_program(prog)
  if threading.active_count() > _BASE['threads'] + 4:
    rmode.settle_threads(_BASE['threads'])
  ninv = sum(1 for e in x.events if e[0] == 'body' and e[1] == 1)
  nopts = len([k for k, v in c['o'].items() if v not in (None, False)])
  r.nontrivial = nopts >= 2 or ninv >= 2 or c['pos'] != 'first'
  r.classes = ['pos:' + c['pos'], 'diag:' + c['diag'], 'inv:%d' % min(ninv, 5)] + ['opt:' + k for k in sorted(c['o'])]
  recs = [p for p in x.phases if p['name'] == 'p1']
  r.classes += sorted({'rec:%s/%s' % (p['outcome'], p['result'].split(':')[0]) for p in recs}) or ['rec:none']
  if obs.record is None:
    r.bad('C05/no-record', 'execute() raised %r' % (obs.exc,))
    return r
  died = [t for t in obs.thread_exceptions if 'TestExecutor' in t[0]]
  if died:
    r.bad('C05/executor-exception/%s@%s' % (died[0][1], died[0][3]), 'executor thread died: %r' % (died[0],))
    return r
  if x.unspecified:
    r.classes.append('unspecified')
    return r
  tp = [1] if c['o'].get('to') == 0 else []
  for channel, cls, detail in diff.compare(x, obs, tp):
    r.bad('C05/%s/%s' % (channel, cls), detail)
  # explicit invocation-count bound (statement: at most repeat_limit times, default 3)
  limit = c['o'].get('rl') or 3
  got_inv = sum(1 for e in obs.events if e[0] == 'body' and e[1] == 1)
  if got_inv > limit:
    r.bad('C05/repeat-limit-exceeded', 'body invoked %d times, limit %d' % (got_inv, limit))
  if c['o'].get('run_if') == 'F' and (got_inv or any(p['name'] == 'p1' for p in obs.record['phases'])):
    r.bad('C05/run_if-false-but-ran', 'run_if false yet invoked %d times / record written' % got_inv)
  return r


def table(tier):
  """The decision table: options x two-invocation behaviours x diagnoser sets x positions."""
  optsets = []
  for rl, fr, romf, ri, somf in itertools.product([None, 1, 2], [False, True], [False, True], [None, 'F'], [False, True]):
    o = {}
    if rl:
      o['rl'] = rl
    if fr:
      o['fr'] = True
    if romf:
      o['romf'] = True
    if ri:
      o['run_if'] = ri
    if somf:
      o['somf'] = True
    optsets.append(o)
  one = [(e, m) for e in RESULTS for m in 'pfu']
  for o in optsets:
    for b1 in one:
      for b2 in one:
        for ds in ('none', 'pass', 'fail', 'raise', 'raise+fail', 'class-pass+class-fail'):
          for pos in ('first', 'after_fail', 'in_subtest', 'in_teardown'):
            yield {'o': o, 'beh': [list(b1), list(b2)], 'diag': ds, 'pos': pos, 'nmeas': 1, 'allow_unset': False, 'sof': None}


def monitored_table():
  """Every result x measurement class for a phase whose body is wrapped by a monitor, alone and with repeat options."""
  for o in ({'mon': True}, {'mon': True, 'rl': 2}, {'mon': True, 'fr': True, 'rl': 2}, {'mon': True, 'run_if': 'F'}, {'mon': True, 'somf': True}):
    for e in RESULTS:
      for m in 'pf':
        for pos in ('first', 'in_subtest'):
          for ds in ('none', 'fail'):
            yield {'o': o, 'beh': [[e, m], ['NONE', 'p']], 'diag': ds, 'pos': pos, 'nmeas': 1, 'allow_unset': False, 'sof': None}


# ------------------------------------------------------------------ aborted invocations ("... nor aborted")
ABORT_POSITIONS = ['first', 'in_subtest', 'in_group_main', 'after_pass']


def aborted_cases():
  for pos in ABORT_POSITIONS:
    for ndiag in (1, 2):
      for delay_ms in (0, 2, 10):
        for fail in (False, True):
          yield {'aborted': True, 'pos': pos, 'ndiag': ndiag, 'delay_ms': delay_ms, 'fail': fail}


def check_aborted(c):
  """The test is aborted while the body of the phase under test runs: that invocation's diagnosers do not run."""
  import time  # pylint: disable=g-import-not-at-top
  from vf import ohtf  # pylint: disable=g-import-not-at-top
  r = CaseResult()
  htf = ohtf.reset_case(cancel_timeout_s=5)
  R = progs.result_enum()
  ran, started, release = [], threading.Event(), threading.Event()

  def mk(k):
    @htf.PhaseDiagnoser(R, name='d%d' % k)
    def d(phase_record):
      ran.append('d%d' % k)
      return htf.Diagnosis([R.R0, R.R1][k % 2], 'made by d%d' % k, is_failure=bool(c['fail'] and k == 0))
    return d

  @htf.PhaseDiagnoser(R, name='dtd')
  def dtd(phase_record):
    ran.append('dtd')
    return htf.Diagnosis(R.R2, 'teardown')

  def p1(test):
    started.set()
    while not release.is_set():     # every iteration is a place where the kill can land
      time.sleep(0.001)
  put = htf.diagnose(*[mk(k) for k in range(c['ndiag'])])(p1)

  def before(test):
    pass

  @htf.diagnose(dtd)
  def td(test):
    pass

  pos = c['pos']
  if pos == 'first':
    nodes = [put]
  elif pos == 'after_pass':
    nodes = [before, put]
  elif pos == 'in_subtest':
    nodes = [htf.Subtest('st', before, put)]
  else:
    nodes = [htf.PhaseGroup(main=[put], teardown=[td])]
  test = htf.Test(*nodes)
  got = []
  test.add_output_callbacks(got.append)

  def aborter():
    if started.wait(10):
      time.sleep(c['delay_ms'] / 1000.0)
      test.abort_from_sig_int()
  th = threading.Thread(target=aborter, name='vf-c05-aborter', daemon=True)
  th.start()
  exc = None
  try:
    test.execute(test_start=lambda: 'dut')
  except Exception as e:  # pylint: disable=broad-except
    exc = e
  finally:
    release.set()
    th.join(5)
  r.nontrivial = True
  r.classes = ['aborted', 'pos:' + pos, 'diag:%d' % c['ndiag'], 'delay_ms:%d' % c['delay_ms']]
  if exc is not None or not got:
    r.bad('C05/aborted/no-record', 'execute() raised %r, %d records' % (exc, len(got)))
    return r
  rec = got[0]
  mine = [p for p in rec.phases if p.name == 'p1']
  if rec.outcome.name != 'ABORTED' or len(mine) != 1:
    r.bad('C05/aborted/outcome-%s' % rec.outcome.name, 'aborted during p1: outcome %s, %d records of p1' % (rec.outcome.name, len(mine)))
    return r
  if mine[0].result.phase_result is None:
    # the executor's poll saw the kill before the body had died and wrote the invocation off as timed out: not the abort path
    r.classes.append('kill-raced-with-poll')
    return r
  mine_ran = [x for x in ran if x != 'dtd']
  if mine_ran or mine[0].diagnosis_results or mine[0].failure_diagnosis_results or [d for d in rec.diagnoses if d.result != R.R2]:
    r.bad('C05/aborted/diagnosers-ran', '%s: the invocation was aborted (record result %r) yet its diagnosers ran %r; phase record results %r, test diagnoses %r' % (
        pos, mine[0].result.phase_result, mine_ran, mine[0].diagnosis_results, [d.result for d in rec.diagnoses]))
  if pos == 'in_group_main' and ran.count('dtd') != 1:
    r.bad('C05/aborted/teardown-diagnoser-ran-%d-times' % ran.count('dtd'), 'the teardown phase ran to its end; its diagnoser ran %d times' % ran.count('dtd'))
  return r


def plan(tier, seed):
  jobs = []
  for s in range(8):
    jobs.append({'kind': 'montable', 'name': 'montable%d' % s, 'shard': s, 'nshards': 8})
  jobs.append({'kind': 'aborted', 'name': 'aborted', 'reps': 1 if tier == 'quick' else 10})
  n = 500 if tier == 'quick' else 10000
  for i in range(16):
    jobs.append({'kind': 'hyp', 'name': 'hyp%d' % i, 'hseed': seed * 1000 + i, 'n': n})
  nsh = 1024 if tier == 'quick' else 64
  which = [(seed * 16 + s) % nsh for s in range(16)] if tier == 'quick' else range(nsh)
  for s in which:
    jobs.append({'kind': 'table', 'name': 'table%d' % s, 'shard': s, 'nshards': nsh, 'complete': tier != 'quick'})
  return jobs


def run_job(job, acct):
  known = set(job.get('known', ()))
  if job['kind'] == '_regress':
    from vf import runner  # pylint: disable=g-import-not-at-top
    runner.run_regress(sys.modules[__name__], job, acct)
  elif job['kind'] == 'hyp':
    hyp.search(acct, cases(), check, seed=job['hseed'], max_examples=job['n'], known=known)
  elif job['kind'] == 'aborted':
    for _ in range(job['reps']):
      for c in aborted_cases():
        r = check_aborted(c)
        acct.case(c, r.nontrivial, r.classes)
        for sig, detail in r.violations:
          (acct.known if sig in known else acct.violation)(sig, c, detail)
  elif job['kind'] == 'montable':
    for i, c in enumerate(monitored_table()):
      if i % job['nshards'] != job['shard']:
        continue
      r = check(c)
      acct.case(c, r.nontrivial, r.classes + ['monitored-table'])
      for sig, detail in r.violations:
        (acct.known if sig in known else acct.violation)(sig, c, detail)
    if job['shard'] == 0:
      acct.exhaustive_parts.append('monitored phase: 5 option sets x 12 results x {pass, fail} x 2 positions x 2 diagnoser sets')
  elif job['kind'] == 'table':
    for i, c in enumerate(table(job['tier'])):
      if i % job['nshards'] != job['shard']:
        continue
      r = check(c)
      acct.case(c, r.nontrivial, r.classes + ['table'])
      for sig, detail in r.violations:
        (acct.known if sig in known else acct.violation)(sig, c, detail)
    if job['shard'] == 0 and job['complete']:
      acct.exhaustive_parts.append('decision table: 48 option sets x 36^2 two-invocation behaviours x 5 diagnoser sets x 4 positions')


def replay(case):
  if case.get('aborted'):
    return check_aborted(case).violations
  return check(case).violations
