"""C09 - execute() hands a complete, final record to every output callback exactly once; Test is reusable afterwards."""
import logging
import sys
import threading
import time

from hypothesis import strategies as st

from vf import hyp
from vf import ohtf
from vf import progs
from vf.hyp import CaseResult

ID = 'C09'
LEVEL = 'exploration'
RULE = ('Case = generated program (free grammar: normal end, terminal phase, terminal test_start, plug constructor failure, '
        'timeout, operator abort delivered from a second thread while a gated phase body is running) x a list of 0-4 output '
        'callbacks each raising or not (all 2^n raising subsets are drawn with equal weight) x history {execute 1-3 times on the '
        'same Test object, optionally an overlapping execute() attempted while the first run is inside a phase}.  Oracle: '
        'record-completeness predicate (outcome, end time, start<=end, every phase record has outcome/result/options and '
        'start<=end<=test end, dut_id set or default, metadata test_name + config snapshot, no running phase), callbacks '
        'called exactly once each, in registration order, all with the identical record object, regardless of which raise; '
        'return value == (outcome is PASS); afterwards test.state is None, the uid is gone from TEST_INSTANCES, the openhtf '
        'logger handler list equals the baseline, re-execution works and yields an equally complete record; the overlapping '
        'call raises InvalidTestStateError and the first run is unaffected.  Non-trivial = non-normal exit path, or >=1 raising '
        'callback (callbacks are functions, lambdas, bound methods, functools.partial or callable objects; failing ones raise a custom '
        'exception, OSError, KeyError or UnicodeDecodeError), or a repeated/overlapping execute; distinct by canonical case.  Plus (scheduled): 2-3 threads call execute() on '
        'one Test at the same time, every single preemption at line granularity; each call returns True or raises '
        'InvalidTestStateError, one complete record per returning call, body invocations of two runs never overlap, the Test is '
        'clean afterwards (non-trivial there = effective preemption with a refused or second successful call).  Final: every record is deep-copied when handed over and compared again after the last run; meanwhile a phase of each later run edits nested declared metadata in its own record and a configuration value changes in place.')
ASSUMPTIONS = ['Abort is delivered via Test.abort_from_sig_int() from a helper thread started by a phase body (real signal delivery is not exercised here; see C04).']

_BASE = {'threads': None}


# what a registered callback is (the last two have no __name__) and what a failing one raises
CB_KINDS = ['function', 'lambda', 'method', 'partial', 'object']
CB_EXCS = ['CallbackBoom', 'OSError', 'KeyError', 'UnicodeDecodeError']


@st.composite
def cases(draw):
  prog = draw(progs.programs(strict=False, max_nodes=8, maxdepth=2, with_test_start=True))
  ncb = draw(st.integers(0, 4))
  prog['opts']['callbacks'] = [draw(st.integers(0, 1)) for _ in range(ncb)]
  prog['opts']['callback_kinds'] = [draw(st.sampled_from(CB_KINDS)) for _ in range(ncb)]
  prog['opts']['callback_excs'] = [draw(st.sampled_from(CB_EXCS)) for _ in range(ncb)]
  phases = [n for n, _ in progs.walk(prog['nodes']) if n['t'] == 'phase']
  special = None
  if phases and draw(st.integers(0, 3)) == 0:
    special = [draw(st.sampled_from(['overlap', 'overlap', 'abort'])), phases[draw(st.integers(0, len(phases) - 1))]['id']]
  ptt = 0.05
  if draw(st.integers(0, 4)) == 0 and phases:
    prog['plugs'] = [{'ctor': draw(st.sampled_from(['ok', 'ok', 'raise'])), 'td': draw(st.sampled_from(['ok', 'ok', 'raise']))}]
    phases[0]['plugs'] = [['pl', 0, True]]
    # the configuration key that bounds plug tearDown, also left empty in the station's YAML (None) or set to "no limit" (0)
    ptt = draw(st.sampled_from([0.05, 0.05, None, 0]))
  return {'prog': prog, 'runs': draw(st.sampled_from([1, 1, 2, 3])), 'special': special,
          'set_dut': draw(st.sampled_from([None, None, 'DUT7'])), 'ptt': ptt}


def completeness(rec, default_dut='UNKNOWN_DUT'):
  v = []
  if rec.outcome is None:
    v.append(('C09/incomplete/outcome-unset', 'record.outcome is None'))
  if rec.end_time_millis is None:
    v.append(('C09/incomplete/end-time-unset', 'record.end_time_millis is None'))
  elif not rec.start_time_millis or rec.start_time_millis > rec.end_time_millis:
    v.append(('C09/incomplete/start-after-end', 'start %r end %r' % (rec.start_time_millis, rec.end_time_millis)))
  if rec.dut_id is None or rec.dut_id == '':
    v.append(('C09/incomplete/dut-id-unset', 'record.dut_id is %r' % (rec.dut_id,)))
  if 'test_name' not in rec.metadata or 'config' not in rec.metadata:
    v.append(('C09/incomplete/metadata', 'metadata keys %r' % (sorted(rec.metadata),)))
  for p in rec.phases:
    if p.outcome is None or p.result is None or p.options is None:
      v.append(('C09/incomplete/phase-record-fields', 'phase %s outcome=%r result=%r options=%r' % (p.name, p.outcome, p.result, p.options)))
    if p.end_time_millis is None or p.start_time_millis is None or p.start_time_millis > p.end_time_millis:
      v.append(('C09/incomplete/phase-times', 'phase %s start=%r end=%r' % (p.name, p.start_time_millis, p.end_time_millis)))
    elif rec.end_time_millis is not None and p.end_time_millis > rec.end_time_millis:
      v.append(('C09/incomplete/phase-ends-after-test', 'phase %s end=%r test end=%r' % (p.name, p.end_time_millis, rec.end_time_millis)))
  return v


def check(case):
  r = CaseResult()
  prog = case['prog']
  htf = ohtf.reset_case(cancel_timeout_s=0.05, plug_teardown_timeout_s=case.get('ptt', 0.05), **progs.conf_values(prog))
  from openhtf.util import configuration  # pylint: disable=g-import-not-at-top
  if _BASE['threads'] is None:
    _BASE['threads'] = threading.active_count()
  ctx = progs.Ctx()
  test, tsarg = progs.build_test(prog, ctx, htf)
  cbspec = prog['opts']['callbacks']
  log = []
  current = {'run': 0, 'state_running_phase': None}

  def mk(i, raises):
    def cb(rec):
      log.append((current['run'], i, rec))
      if i == 0:
        st_ = test.state
        current['state_running_phase'] = None if st_ is None else st_.running_phase_state
      if raises:
        exc = (prog['opts'].get('callback_excs') or ['CallbackBoom'] * (i + 1))[i]
        if exc == 'CallbackBoom':
          raise progs.CallbackBoom('cb%d' % i)
        if exc == 'UnicodeDecodeError':
          b'\xff'.decode('utf-8')
        raise {'OSError': OSError, 'KeyError': KeyError}[exc]('cb%d' % i)

    class Sink(object):
      def __call__(self, rec):
        return cb(rec)

      def write(self, rec):
        return cb(rec)

    kind = (prog['opts'].get('callback_kinds') or ['function'] * (i + 1))[i]
    import functools  # pylint: disable=g-import-not-at-top
    return {'function': cb, 'lambda': lambda rec: cb(rec), 'method': Sink().write, 'partial': functools.partial(cb), 'object': Sink()}[kind]

  for i, raises in enumerate(cbspec):
    test.add_output_callbacks(mk(i, raises))
  special = case.get('special')
  overlap_result = []
  if special:
    kind, pid = special

    def hook(test_api, inv, plugs):
      if inv != 0 or current['run'] != 0:
        return
      if kind == 'overlap':
        try:
          overlap_result.append(('returned', test.execute()))
        except Exception as e:  # pylint: disable=broad-except
          overlap_result.append(('raised', type(e).__name__))
      else:
        t = threading.Thread(target=test.abort_from_sig_int, name='aborter')
        t.start()
        t_end = time.time() + 1
        while time.time() < t_end:  # killed by the abort
          time.sleep(0.0005)
        overlap_result.append(('abort-did-not-kill', None))

    ctx.hooks[pid] = hook
  if case.get('set_dut'):
    first = [n for n, _ in progs.walk(prog['nodes']) if n['t'] == 'phase']
    if first and first[0]['id'] not in ctx.hooks:
      ctx.hooks[first[0]['id']] = lambda test_api, inv, plugs: setattr(test_api, 'dut_id', case['set_dut'])
  # "complete and final": the test declares nested metadata which a phase of every run edits in its own record, and the
  # configuration holds a mutable value that changes in place after each run; records handed over earlier stay as they were
  import copy  # pylint: disable=g-import-not-at-top
  handed_over = []
  try:
    test.descriptor.metadata['fixture'] = {'slots': ['a']}
  except Exception:  # pylint: disable=broad-except
    pass
  else:
    firstp = [n for n, _ in progs.walk(prog['nodes']) if n['t'] == 'phase']
    if firstp and firstp[0]['id'] not in ctx.hooks and not special:
      def edit_own_record(test_api, inv, plugs):
        test_api.test_record.metadata['fixture']['slots'].append('run-%d' % current['run'])
      ctx.hooks[firstp[0]['id']] = edit_own_record
  nontrivial = bool(sum(cbspec)) or case['runs'] > 1 or bool(special)
  classes = ['cbs:%d' % len(cbspec), 'raising:%d' % sum(cbspec), 'runs:%d' % case['runs']] + (['special:' + special[0]] if special else []) + (
      ['plug_teardown_timeout_s:%s' % case.get('ptt')] if prog.get('plugs') else [])
  summaries = []
  if 'vf_c09_probe' not in configuration.CONF._declarations:  # pylint: disable=protected-access
    configuration.CONF.declare('vf_c09_probe')   # no default: present in the snapshot only while a value is loaded
  for run in range(case['runs']):
    current['run'] = run
    n_before = len(log)
    ctx.inv.clear()
    exc = None
    ret = None
    snap_box = []

    def do_run():
      snap_box.append(configuration.CONF._asdict())  # pylint: disable=protected-access
      return test.execute(test_start=tsarg)

    probe_value = [run]
    try:
      if run % 2 == 0:   # the configuration differs from run to run: even runs have one more key loaded
        ret = configuration.CONF.save_and_restore(vf_c09_probe=probe_value)(do_run)()
      else:
        ret = do_run()
    except BaseException as e:  # pylint: disable=broad-except
      exc = e
    snapshot = snap_box[0] if snap_box else None
    if exc is not None:
      r.bad('C09/execute-raised/%s' % type(exc).__name__, 'run %d: execute() raised %r' % (run, exc))
      break
    calls = log[n_before:]
    order = [i for _, i, _ in calls]
    if order != list(range(len(cbspec))):
      r.bad('C09/callbacks-%s' % ('missing' if len(order) < len(cbspec) else 'order-or-repeat'),
            'run %d: callbacks called %r, registered %r (raising %r)' % (run, order, list(range(len(cbspec))), cbspec))
    recs = [rec for _, _, rec in calls]
    if recs and any(x is not recs[0] for x in recs):
      r.bad('C09/callbacks-different-records', 'run %d: callbacks received different record objects' % run)
    if recs:
      rec = recs[0]
      for sig, detail in completeness(rec):
        r.bad(sig, 'run %d: %s' % (run, detail))
      if rec.outcome is not None:
        classes.append('outcome:' + rec.outcome.name)
        if rec.outcome.name != 'PASS':
          nontrivial = True
        if ret != (rec.outcome.name == 'PASS'):
          r.bad('C09/return-value', 'run %d: execute() returned %r with outcome %s' % (run, ret, rec.outcome.name))
      if rec.metadata.get('config') != snapshot:
        r.bad('C09/config-snapshot', 'run %d: metadata config differs from CONF._asdict() at execute()' % run)
      if rec.metadata.get('test_name') != 'openhtf_test':
        r.bad('C09/incomplete/metadata', 'run %d: test_name %r' % (run, rec.metadata.get('test_name')))
      exp_dut = None
      handed_over.append((run, rec, copy.deepcopy(rec.metadata)))
      probe_value.append('changed-after-run-%d' % run)
      if current['state_running_phase'] is not None:
        r.bad('C09/phase-still-running', 'run %d: a phase is still marked running when callbacks are called' % run)
      summaries.append((rec.outcome, [(p.name, p.outcome, str(p.result.phase_result) if p.result and not hasattr(p.result.phase_result, 'exc_type') else 'EXC')
                                       for p in rec.phases if not (special and run == 0)]))
    # afterwards
    if test.state is not None:
      r.bad('C09/executor-still-held', 'run %d: test.state is not None after execute()' % run)
    if len(htf.Test.TEST_INSTANCES):
      r.bad('C09/still-registered-for-sigint', 'run %d: TEST_INSTANCES not empty: %r' % (run, list(htf.Test.TEST_INSTANCES)))
    handlers = logging.getLogger('openhtf').handlers
    if [type(h).__name__ for h in handlers] != [type(h).__name__ for h in ohtf.baseline_handlers()]:
      r.bad('C09/log-handler-left', 'run %d: openhtf logger handlers %r' % (run, [type(h).__name__ for h in handlers]))
    if run == 0 and special:
      if special[0] == 'overlap' and overlap_result and overlap_result[0] != ('raised', 'InvalidTestStateError'):
        r.bad('C09/overlapping-execute-not-refused', 'overlapping execute(): %r' % (overlap_result[0],))
      if special[0] == 'abort' and overlap_result and overlap_result[0][0] == 'abort-did-not-kill':
        classes.append('abort-did-not-kill')
  ctx.cancel.set()
  for run, rec, meta in handed_over:
    if rec.metadata != meta:
      changed = sorted(k for k in set(meta) | set(rec.metadata) if meta.get(k) != rec.metadata.get(k))
      r.bad('C09/record-changed-after-handover', 'the record of run %d was handed to the callbacks with metadata[%s]=%r; after %d runs it reads %r' % (
          run, changed[0], meta.get(changed[0]), case['runs'], rec.metadata.get(changed[0])))
      break
  if case['runs'] > 1 and handed_over:
    classes.append('earlier-records-rechecked')
  # consecutive runs produce equally shaped records (isolation itself is C11's business; here: re-execution works)
  if len(summaries) >= 2 and not special:
    if any(s != summaries[0] for s in summaries[1:]) and not any(p['o'].get('to') == 0 for p in progs.all_phases(prog)):
      r.bad('C09/re-execution-differs', 'records of consecutive runs differ: %r' % (summaries,))
  if threading.active_count() > _BASE['threads'] + 4:
    from vf import rmode  # pylint: disable=g-import-not-at-top
    rmode.settle_threads(_BASE['threads'])
  r.classes = classes
  r.nontrivial = nontrivial
  return r


ABORT_TEMPLATES = ['plain3', 'group', 'subtest', 'start+plain']


# ------------------------------------------------------------------ two threads enter execute() of one Test at once
def check_race(case):
  """case = {'race': n_threads, 'plan': {yield index: thread choice}}.

  Scheduled: n threads call execute() on the same Test; the phase body blocks for a while (virtual time).  Oracle: every
  call either returns (True: the test passes) or raises InvalidTestStateError, nothing else; each returning call produced
  exactly one complete record through the callback, the body ran once per returning call and two invocations of the body
  never overlap in time; afterwards the Test holds no executor and is not registered for SIGINT.
  """
  from vf import vmode  # pylint: disable=g-import-not-at-top
  from vf import vsched as V  # pylint: disable=g-import-not-at-top
  import threading as real_threading  # pylint: disable=g-import-not-at-top
  r = CaseResult()
  vmode.setup()
  V.monitor_lines(vmode.executor_code_objects())
  plan_ = {int(k): v for k, v in (case.get('plan') or {}).items()}
  n = case['race']

  def fn(s):
    htf = ohtf.reset_case(cancel_timeout_s=0.05, plug_teardown_timeout_s=0.05)
    vmode.quiet_logging()
    log = []

    def body(test):
      log.append(('body-start', s.k))
      s.sleep(2.0)
      log.append(('body-end', s.k))

    test = htf.Test(body)
    recs = []
    test.add_output_callbacks(recs.append)
    results = [None] * n

    def racer(i):
      try:
        results[i] = ('returned', test.execute(test_start=lambda: 'dut'))
      except BaseException as e:  # pylint: disable=broad-except
        results[i] = ('raised', type(e).__name__, repr(e)[:200])

    ths = []
    for i in range(n):
      t = real_threading.Thread(target=racer, args=(i,), name='racer%d' % i)
      t.daemon = True
      t.start()
      ths.append(t)
    for t in ths:
      t.join()
    incomplete = []
    for rec in recs:
      incomplete += completeness(rec, default_dut='dut')
    return {'results': results, 'log': log, 'n_recs': len(recs), 'distinct_recs': len({id(x) for x in recs}), 'incomplete': incomplete,
            'executor': getattr(test, '_executor', None) is not None, 'registered': len(htf.Test.TEST_INSTANCES)}

  s = V.Scheduler(plan=plan_, time_limit=1e5, max_steps=200000)
  res, exc = s.run(lambda: fn(s), watchdog_s=20.0)
  tag = 'race=%d plan=%r' % (n, case.get('plan'))
  if s.failure is not None:
    if s.failure[0] in ('deadlock', 'steplimit'):
      r.bad('C09/race/hang', '%s: %s' % (tag, s.failure[1][:400]))
      return r, s
    raise RuntimeError('scheduler failure %r' % (s.failure,))
  if exc is not None:
    raise exc
  results = res['results']
  ok = [x for x in results if x and x[0] == 'returned']
  refused = [x for x in results if x and x[0] == 'raised' and x[1] == 'InvalidTestStateError']
  other = [x for x in results if x and x not in ok and x not in refused]
  if other:
    r.bad('C09/race/execute-raised/%s' % other[0][1], '%s: results %r' % (tag, results))
  elif not ok:
    r.bad('C09/race/every-call-refused', '%s: results %r' % (tag, results))
  else:
    if any(x[1] is not True for x in ok):
      r.bad('C09/race/return-value', '%s: results %r' % (tag, results))
    starts = [e for e in res['log'] if e[0] == 'body-start']
    if len(starts) != len(ok) or res['n_recs'] != len(ok) or res['distinct_recs'] != len(ok):
      r.bad('C09/race/runs-vs-records', '%s: %d calls returned, body ran %d times, callback got %d records (%d distinct)' % (
          tag, len(ok), len(starts), res['n_recs'], res['distinct_recs']))
    depth = 0
    for e in res['log']:
      depth += 1 if e[0] == 'body-start' else -1
      if depth > 1:
        r.bad('C09/race/overlapping-runs-not-refused', '%s: two runs of the same Test were inside the phase body at once; results %r log %r' % (tag, results, res['log']))
        break
  if res['incomplete']:
    r.bad('C09/race/' + res['incomplete'][0][0].replace('C09/', ''), '%s: %s' % (tag, res['incomplete'][0][1]))
  if res['executor'] or res['registered']:
    r.bad('C09/race/not-cleaned-up', '%s: executor still set=%s, TEST_INSTANCES=%d; results %r' % (tag, res['executor'], res['registered'], results))
  r.nontrivial = bool(s.effective_preemptions) and bool(refused or len(ok) > 1)
  r.classes = ['race:%d' % n, 'refused:%d' % len(refused), 'returned:%d' % len(ok), 'preemptions:%d' % min(len(s.effective_preemptions), 3)]
  return r, s


# ------------------------------------------------------------------ execute() that cannot run the test at all
BAD_INPUTS = ['uncopyable-metadata', 'unreplaced-placeholder', 'bad-profile-path', 'raising-metadata-copy']


def check_badinput(case):
  """case = {'badinput': kind, 'phases': 1..3, 'then': 'again'|'good'}.

  The Test (or the execute() call) is given something the run cannot start or complete with.  execute() may raise for input
  it cannot use, but it must clean up after itself: no executor held, not registered for SIGINT, no record handler left on
  the openhtf logger, and the Test is not refused as "already running" afterwards.  A profile file that cannot be written
  does not concern the test itself: the record still reaches every callback.
  """
  import copy as _copy  # pylint: disable=g-import-not-at-top
  r = CaseResult()
  kind = case['badinput']
  htf = ohtf.reset_case(cancel_timeout_s=0.05, plug_teardown_timeout_s=0.05)
  ran = []

  def mkphase(i):
    def ph(test):
      ran.append(i)
    ph.__name__ = 'ph%d' % i
    return ph

  class Uncopyable(object):
    def __deepcopy__(self, memo):
      raise TypeError('cannot copy the station handle')

  nodes = [mkphase(i) for i in range(case.get('phases', 1))]
  kw = {}
  exec_kw = {}
  if kind == 'uncopyable-metadata':
    kw['station_lock'] = threading.Lock()
  elif kind == 'raising-metadata-copy':
    kw['station'] = Uncopyable()
  elif kind == 'unreplaced-placeholder':
    nodes.append(htf.plugs.plug(p=htf.plugs.BasePlug.placeholder)(lambda test, p: None))
  elif kind == 'bad-profile-path':
    exec_kw['profile_filename'] = '/nonexistent-directory-vf/x.prof'
  try:
    test = htf.Test(*nodes, **kw)
  except Exception as e:  # pylint: disable=broad-except
    r.classes = ['badinput:' + kind, 'rejected-at-construction']
    r.nontrivial = True
    return r
  recs = []
  test.add_output_callbacks(recs.append)
  test.add_output_callbacks(recs.append)
  r.classes = ['badinput:' + kind]
  r.nontrivial = True
  outcomes = []
  for run in range(2):
    del recs[:]
    exc = None
    try:
      test.execute(**exec_kw)
    except BaseException as e:  # pylint: disable=broad-except
      exc = e
    outcomes.append(type(exc).__name__ if exc is not None else 'returned')
    if type(exc).__name__ == 'InvalidTestStateError':
      r.bad('C09/badinput/refused-as-already-running', '%s: execute() #%d refused: %r (earlier: %r)' % (kind, run + 1, exc, outcomes[:-1]))
      break
    if test.state is not None:
      r.bad('C09/badinput/executor-still-held', '%s: test.state is not None after execute() #%d (%s)' % (kind, run + 1, outcomes[-1]))
    if len(htf.Test.TEST_INSTANCES):
      r.bad('C09/badinput/still-registered-for-sigint', '%s: TEST_INSTANCES %r after execute() #%d' % (kind, list(htf.Test.TEST_INSTANCES), run + 1))
    handlers = [type(h).__name__ for h in logging.getLogger('openhtf').handlers]
    if handlers != [type(h).__name__ for h in ohtf.baseline_handlers()]:
      r.bad('C09/badinput/log-handler-left', '%s: openhtf logger handlers %r after execute() #%d (%s)' % (kind, handlers, run + 1, outcomes[-1]))
    if kind == 'bad-profile-path':
      if len(recs) != 2 or recs[0] is not recs[1]:
        r.bad('C09/badinput/record-lost', '%s: the test ran (%r) but the callbacks were called %d times (execute(): %s)' % (kind, ran, len(recs), outcomes[-1]))
      else:
        for sig, detail in completeness(recs[0]):
          r.bad(sig.replace('C09/', 'C09/badinput/'), '%s: %s' % (kind, detail))
    if r.violations:
      break
  r.classes += ['execute:' + o for o in outcomes]
  ohtf.reset_case()
  return r


def plan(tier, seed):
  n = 300 if tier == 'quick' else 6000
  jobs = [{'kind': 'hyp', 'name': 'hyp%d' % i, 'hseed': seed * 1000 + i, 'n': n} for i in range(16)]
  jobs.append({'kind': 'badinput', 'name': 'badinput'})
  # the same completeness predicate with an abort injected at every yield point of a scheduled run (engine of C04)
  for t in ABORT_TEMPLATES:
    jobs.append({'kind': 'abort-sweep', 'name': 'abort.%s' % t, 'template': t, 'stride': 4 if tier == 'quick' else 1, 'offset': seed % 4 if tier == 'quick' else 0})
  for nthreads, nsh in ((2, 12), (3, 4)) if tier == 'quick' else ((2, 12), (3, 12)):
    for sh in range(nsh):
      jobs.append({'kind': 'race', 'name': 'race%d.%d' % (nthreads, sh), 'race': nthreads, 'shard': sh, 'nshards': nsh,
                   'stride': 1 if (nthreads == 2 or tier != 'quick') else 3, 'offset': seed % 3})
  return jobs


def run_job(job, acct):
  known = set(job.get('known', ()))
  if job['kind'] == '_regress':
    from vf import runner  # pylint: disable=g-import-not-at-top
    runner.run_regress(sys.modules[__name__], job, acct)
    return
  if job['kind'] == 'badinput':
    for kind in BAD_INPUTS:
      for nph in (1, 3):
        case = {'badinput': kind, 'phases': nph}
        r = check_badinput(case)
        acct.case(case, r.nontrivial, r.classes)
        for sig, detail in r.violations:
          (acct.known if sig in known else acct.violation)(sig, case, detail)
    return
  if job['kind'] == 'race':
    base = {'race': job['race'], 'plan': {}}
    r0, s0 = check_race(base)
    i = 0
    for k in range(job['offset'] if job['stride'] > 1 else 0, s0.k + 2, job['stride']):
      for c in range(job['race']):
        i += 1
        if i % job['nshards'] != job['shard']:
          continue
        case = dict(base, plan={str(k): c})
        r, _ = check_race(case)
        acct.case(case, r.nontrivial, r.classes)
        for sig, detail in r.violations:
          (acct.known if sig in known else acct.violation)(sig, case, detail)
    if job['shard'] == 0 and job['stride'] == 1:
      acct.exhaustive_parts.append('%d threads racing into execute(): every single preemption over %d yield points' % (job['race'], s0.k + 2))
    return
  if job['kind'] == 'abort-sweep':
    from vf.props import c04  # pylint: disable=g-import-not-at-top
    c04.setup_lines()
    base = {'template': job['template'], 'via': 'thread', 'plan': {}}
    r0, s0 = c04.check(base)
    for k in range(job['offset'], s0.k, job['stride']):
      case = dict(base, plan={str(k): ['wake', 'aborter0']})
      r, _ = c04.check(case)
      acct.case({'abort_sweep': case}, r.nontrivial, ['abort-sweep', 'template:' + job['template']])
      for sig, detail in r.violations:
        if sig.startswith('C04/incomplete-record') or sig.startswith('C04/callbacks-called') or sig == 'C04/return-value':
          sig9 = sig.replace('C04/', 'C09/abort/')
          (acct.known if sig9 in known else acct.violation)(sig9, {'abort_sweep': case}, detail)
    return
  hyp.search(acct, cases(), check, seed=job['hseed'], max_examples=job['n'], known=known)


def replay(case):
  if 'badinput' in case:
    return check_badinput(case).violations
  if 'race' in case:
    return check_race(case)[0].violations
  if 'abort_sweep' in case:
    from vf.props import c04  # pylint: disable=g-import-not-at-top
    c04.setup_lines()
    return [(s.replace('C04/', 'C09/abort/'), d) for s, d in c04.check(case['abort_sweep'])[0].violations
            if s.startswith('C04/incomplete-record') or s.startswith('C04/callbacks-called') or s == 'C04/return-value']
  return check(case).violations
