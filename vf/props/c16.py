"""C16 - fastboot command/response state machine and exact image transfer."""
import functools
import io
import itertools
import sys

from hypothesis import strategies as st

from vf import fakes_usb as fk
from vf import hyp
from vf.hyp import CaseResult

ID = 'C16'
LEVEL = 'exploration'
RULE = ('Case = a FastbootCommands entry point (getvar, oem, erase, flash, reboot, reboot_bootloader, continue_, download with an '
        'image of size in {0,1,c-1,c,c+1,2c-1,2c,2c+1,3c+7} for chunk size c=1 KiB, as file object with and without source_len) x a '
        'device response sequence over {INFO x, OKAY x, DATA(size=image), DATA(size!=image), FAIL x, garbage header}.  ALL '
        'sequences up to length 3 (quick) / 4 (thorough) are enumerated for every entry point class, longer ones are drawn by '
        'Hypothesis; device texts behind INFO/OKAY/FAIL/unknown headers from a list with %-signs, braces, newlines, 60-byte and non-ASCII texts (and drawn); progress callback in {none, recording, raising} x {function, lambda, bound method, functools.partial, callable object}.  Oracle = a reference state machine written from the '
        'statement: exactly one "command[:arg]" packet per command ("download:%08x"), INFO packets forwarded to the callback in '
        'order, return value = payload of the terminating OKAY, FAIL -> FastbootRemoteFailureError carrying the text, out-of-place '
        'DATA/OKAY -> FastbootStateMismatchError, other header -> FastbootInvalidResponseError; image bytes only after DATA with '
        'exactly the announced size (else FastbootTransferError and zero image bytes), then exactly the image, in order, in '
        'chunks <= c, cumulative progress; a raising progress callback changes nothing.  Non-trivial = >=1 INFO before the final '
        'packet, or a download; distinct by canonical case.  FastbootDevice.get_boot_config(name) with free device texts: failures by class as for oem, the value of a \'name: value\' line if one was sent, else the OKAY payload; lines without a colon are no such line.')
ASSUMPTIONS = ['Responses and images are str (Python-2 era code); DATA packets always carry 8 hex digits.',
               'The final OKAY/FAIL packet is also forwarded to the info callback by the code; only the INFO subsequence is compared.']
EXHAUSTIVE_WHOLE = False

CHUNK = 1024
SIZES = [0, 1, CHUNK - 1, CHUNK, CHUNK + 1, 2 * CHUNK - 1, 2 * CHUNK, 2 * CHUNK + 1, 3 * CHUNK + 7]
ALPHABET = ['INFO', 'OKAY', 'DATA=', 'DATA!', 'DATA?', 'FAIL', 'JUNK']
MALFORMED_SIZES = ['12', '', 'zzzzzzzz', '0000010', '-0000001']      # what a DATA packet carries instead of 8 hex digits
COMMANDS = [['getvar', 'version'], ['oem', 'poweroff now'], ['erase', 'userdata'], ['flash', 'boot'], ['reboot', None],
            ['reboot', 'recovery'], ['reboot_bootloader'], ['continue_']]


def image(n):
  return ''.join(chr(33 + (i * 7 + i // 251) % 90) for i in range(n))


# what the device puts behind the 4-byte header: free text (fastboot packets are at most 64 bytes)
TEXTS = [None, '', '100% full', 'battery at 15%', '%s', '%d items', 'a%%b', '%', '{0} {name}', 'line1\nline2', 'x' * 60, 'caf\xe9',
         'OKAY', 'FAILED: not allowed', ' leading and trailing ', 'bootmode: recovery', 'bootmode:a:b', 'slot: b']
# FastbootDevice's own helper on top of oem: "Get bootconfig, either as full dict or specific value for key"
BOOTCONFIG = ['bootconfig', 'bootmode']


def packets_of(seq, size, texts=None):
  out = []
  for i, s in enumerate(seq):
    t = (texts or [None])[i % len(texts or [None])]
    if s == 'INFO':
      out.append('INFO' + ('info-%d' % i if t is None else t))
    elif s == 'OKAY':
      out.append('OKAY' + ('ok-%d' % i if t is None else t))
    elif s == 'DATA=':
      out.append('DATA%08x' % size)
    elif s == 'DATA!':
      out.append('DATA%08x' % (size + 1))
    elif s == 'DATA?':
      out.append('DATA' + MALFORMED_SIZES[(i + size) % len(MALFORMED_SIZES)])
    elif s == 'FAIL':
      out.append('FAIL' + ('because-%d' % i if t is None else t))
    else:
      out.append('JUNK' + ('xyz-%d' % i if t is None else t))
  return out


def reference(kind, seq, size, texts=None):
  """Returns dict(result=('ok', value)|('exc', name, text), infos=[...], consumed=n, image_sent=bool)."""
  infos = []
  pk = packets_of(seq, size, texts)
  pos = 0

  def accept(expected):
    nonlocal pos
    while True:
      if pos >= len(pk):
        return ('exc', 'UsbReadFailedError', '')
      p = pk[pos]
      pos += 1
      h, rest = p[:4], p[4:]
      if h == 'INFO':
        infos.append(rest)
      elif h in ('OKAY', 'DATA'):
        if h != expected:
          return ('exc', 'FastbootStateMismatchError', '')
        return ('ok', rest)
      elif h == 'FAIL':
        return ('exc', 'FastbootRemoteFailureError', rest)
      else:
        return ('exc', 'FastbootInvalidResponseError', '')

  if kind == 'bootconfig':
    # get_boot_config(name): 'key: value' lines of the answer are collected (a text without a colon is no such line); the
    # value reported for `name`, else the OKAY payload
    res = accept('OKAY')
    if res[0] == 'ok':
      table = {}
      for line in infos + [res[1]]:
        if line and ':' in line:
          k, v = line.split(':', 1)
          table[k.strip()] = v.strip()
      if BOOTCONFIG[1] in table:
        res = ('ok', table[BOOTCONFIG[1]])
    return dict(result=res, infos=infos, image_sent=False)
  if kind != 'download':
    res = accept('OKAY')
    return dict(result=res, infos=infos, image_sent=False)
  res = accept('DATA')
  if res[0] != 'ok':
    return dict(result=res, infos=infos, image_sent=False)
  digits = res[1][:8]
  if len(digits) != 8 or any(c not in '0123456789abcdefABCDEF' for c in digits) or int(digits, 16) != size:
    # not "DATA with exactly that size": a transfer error, and no image byte goes out
    return dict(result=('exc', 'FastbootTransferError', ''), infos=infos, image_sent=False)
  res = accept('OKAY')
  return dict(result=res, infos=infos, image_sent=True)


def check(case):
  """case = {'cmd': [name, arg] | ['download', size, with_len], 'seq': [...], 'progress': 'none'|'rec'|'raise'}"""
  r = CaseResult()
  m = fk.load()
  ex = m.usb_exceptions
  fp = m.fastboot_protocol
  fp.FASTBOOT_DOWNLOAD_CHUNK_SIZE_KB = 1
  kind = case['cmd'][0]
  size = case['cmd'][1] if kind == 'download' else 0
  dev = fk.ScriptedBootloader(packets_of(case['seq'], size, case.get('texts')))
  fc = fp.FastbootCommands(dev)
  if case.get('via') == 'device':
    # the documented way in: FastbootDevice.connect(handle) (what usb.FastbootPlug hands to phases); no retries, so that
    # every call maps to one command like on FastbootCommands itself
    from openhtf.plugs.usb import fastboot_device  # pylint: disable=g-import-not-at-top
    fc = fastboot_device.FastbootDevice.connect(dev, num_retries=0)
  infos, progress = [], []

  def info_cb(msg):
    infos.append((msg.header, msg.message))

  def prog_cb(cur, total):
    progress.append((cur, total))
    if case.get('progress') == 'raise':
      raise RuntimeError('progress callback raises')

  # the callback is handed over as any kind of callable: plain function, lambda, bound method, functools.partial or an
  # object with __call__ (the last two have no __name__/__qualname__)
  class Reporter(object):
    def __call__(self, cur, total):
      return prog_cb(cur, total)

    def report(self, cur, total):
      return prog_cb(cur, total)

  cb_kind = case.get('cb_kind', 'function')
  progress_callable = {'function': prog_cb, 'lambda': lambda c, t: prog_cb(c, t), 'method': Reporter().report,
                       'partial': functools.partial(prog_cb), 'object': Reporter()}[cb_kind]
  got = None
  try:
    if kind == 'download':
      img = image(size)
      kw = {'info_cb': info_cb}
      if case['cmd'][2]:
        kw['source_len'] = size
      if case.get('progress', 'none') != 'none':
        kw['progress_callback'] = progress_callable
      got = ('ok', fc.download(io.StringIO(img), **kw))
      exp_packet = 'download:%08x' % size
    else:
      name = case['cmd'][0]
      arg = case['cmd'][1] if len(case['cmd']) > 1 else None
      if name == 'getvar':
        got = ('ok', fc.get_var(arg, info_cb=info_cb))
        exp_packet = 'getvar:%s' % arg
      elif name == 'oem':
        got = ('ok', fc.oem(arg, info_cb=info_cb))
        exp_packet = 'oem %s' % arg
      elif name == 'erase':
        got = ('ok', fc.erase(arg))
        exp_packet = 'erase:%s' % arg
      elif name == 'flash':
        got = ('ok', fc.flash(arg, info_cb=info_cb))
        exp_packet = 'flash:%s' % arg
      elif name == 'reboot':
        got = ('ok', fc.reboot(arg))
        exp_packet = 'reboot' if arg is None else 'reboot:%s' % arg
      elif name == 'reboot_bootloader':
        got = ('ok', fc.reboot_bootloader())
        exp_packet = 'reboot-bootloader'
      elif name == 'bootconfig':
        got = ('ok', fc.get_boot_config(arg))
        exp_packet = 'oem bootconfig %s' % arg
      else:
        got = ('ok', fc.continue_())
        exp_packet = 'continue'
  except (Exception, fk.RunawayError) as e:  # pylint: disable=broad-except
    got = ('exc', type(e).__name__, str(e))
    name = case['cmd'][0]
    arg = case['cmd'][1] if len(case['cmd']) > 1 else None
    exp_packet = {'download': 'download:%08x' % size, 'getvar': 'getvar:%s' % arg, 'oem': 'oem %s' % arg, 'erase': 'erase:%s' % arg,
                  'flash': 'flash:%s' % arg, 'reboot': 'reboot' if arg is None else 'reboot:%s' % arg,
                  'reboot_bootloader': 'reboot-bootloader', 'continue_': 'continue', 'bootconfig': 'oem bootconfig %s' % arg}[name]
  ref = reference(kind, case['seq'], size, case.get('texts'))
  uses_info_cb = kind in ('download', 'getvar', 'oem', 'flash')
  # command packet
  if not dev.packets or dev.packets[0] != exp_packet:
    r.bad('C16/command-packet', 'first packet %r, expected %r' % (dev.packets[:1], exp_packet))
  image_packets = dev.packets[1:]
  # result
  want = ref['result']
  if want[0] == 'ok':
    exp_val = want[1]
    if got[0] != 'ok':
      r.bad('C16/unexpected-exception/%s' % got[1], 'sequence %r: raised %s(%s), expected return %r' % (case['seq'], got[1], got[2][:60], exp_val))
    elif got[1] != exp_val:
      r.bad('C16/wrong-return-value', 'sequence %r: returned %r, expected %r' % (case['seq'], got[1], exp_val))
  else:
    if got[0] == 'ok':
      r.bad('C16/missing-exception/%s' % want[1], 'sequence %r: returned %r, expected %s' % (case['seq'], got[1], want[1]))
    elif got[1] != want[1]:
      r.bad('C16/wrong-exception/%s-instead-of-%s' % (got[1], want[1]), 'sequence %r: %s' % (case['seq'], got[2][:80]))
    elif want[1] == 'FastbootRemoteFailureError' and want[2] not in got[2]:
      r.bad('C16/fail-text-lost', 'device text %r not in %r' % (want[2], got[2]))
  # INFO forwarding
  if uses_info_cb:
    got_infos = [msg for h, msg in infos if h == 'INFO']
    if got_infos != ref['infos']:
      r.bad('C16/info-forwarding', 'callback got INFO %r, device sent %r' % (got_infos, ref['infos']))
  # image transfer
  if kind == 'download':
    img = image(size)
    if ref['image_sent']:
      if ''.join(image_packets) != img:
        r.bad('C16/image-bytes', 'image packets carry %d bytes (%d packets), image has %d' % (len(''.join(image_packets)), len(image_packets), size))
      if any(len(p) > CHUNK for p in image_packets):
        r.bad('C16/chunk-too-large', 'packet sizes %r, chunk size %d' % ([len(p) for p in image_packets], CHUNK))
      if case.get('progress', 'none') != 'none':
        tot, exp_prog = 0, []
        for p in image_packets:
          tot += len(p)
          exp_prog.append((tot, size))
        if progress != exp_prog:
          r.bad('C16/progress', 'progress %r, expected %r' % (progress[:6], exp_prog[:6]))
    elif image_packets:
      r.bad('C16/image-sent-without-matching-DATA', '%d image packets although the device did not answer DATA with the image size (sequence %r)' % (
          len(image_packets), case['seq']))
  elif image_packets:
    r.bad('C16/extra-packets', 'extra packets %r' % (image_packets[:3],))
  if case.get('via') == 'device':
    try:
      fc.close()
    except Exception as e:  # pylint: disable=broad-except
      r.bad('C16/device-wrapper/close-raised/%s' % type(e).__name__, 'FastbootDevice.close(): %r' % (e,))
    else:
      if not dev.closed:
        r.bad('C16/device-wrapper/handle-not-closed', 'FastbootDevice.close() left the USB handle open')
  n_info_before_final = len(ref['infos'])
  r.nontrivial = n_info_before_final >= 1 or kind == 'download'
  r.classes = ['via:' + case.get('via', 'commands'), 'cmd:' + kind, 'result:' + (want[1] if want[0] == 'exc' else 'ok'), 'seqlen:%d' % len(case['seq'])] + (
      ['size:%d' % size, 'progress:' + case.get('progress', 'none'), 'cb:' + case.get('cb_kind', 'function')] if kind == 'download' else [])
  return r


CB_KINDS = ['function', 'lambda', 'method', 'partial', 'object']


def exhaustive_cases(maxlen):
  for n in range(0, maxlen + 1):
    for seq in itertools.product(ALPHABET, repeat=n):
      for ci, cmd in enumerate(COMMANDS):
        yield {'cmd': cmd, 'seq': list(seq), 'progress': 'none'}
        if n <= 2:
          yield {'cmd': cmd, 'seq': list(seq), 'progress': 'none', 'via': 'device'}
      if n and n <= 3 and not any(x.startswith('DATA') for x in seq):
        for rot in range(0, len(TEXTS), 2):
          yield {'cmd': BOOTCONFIG, 'seq': list(seq), 'progress': 'none', 'via': 'device', 'texts': [TEXTS[(rot + 5 * j) % len(TEXTS)] for j in range(n)]}
        if n and 'DATA=' not in seq and 'DATA!' not in seq and 'DATA?' not in seq:
          # the same reply sequence with device-chosen texts, rotated through TEXTS
          rot = (ci + 3 * n + sum(map(len, seq))) % len(TEXTS)
          yield {'cmd': cmd, 'seq': list(seq), 'progress': 'none', 'texts': [TEXTS[(rot + j) % len(TEXTS)] for j in range(n)]}
      for k, size in enumerate(SIZES):
        for cb_kind in CB_KINDS:
          progress = ['none', 'rec', 'raise'][(k + n) % 3]
          if progress == 'none' and cb_kind != 'function':
            continue
          yield {'cmd': ['download', size, bool(k % 2)], 'seq': list(seq), 'progress': progress, 'cb_kind': cb_kind}


@st.composite
def drawn_cases(draw):
  seq = draw(st.lists(st.sampled_from(ALPHABET + ['INFO', 'INFO']), min_size=4, max_size=8))
  texts = draw(st.lists(st.one_of(st.sampled_from(TEXTS), st.text(alphabet=[chr(i) for i in range(32, 256)] + ['%', '%', '\n'], max_size=60)),
                        min_size=1, max_size=8))
  if draw(st.booleans()):
    case = {'cmd': draw(st.sampled_from(COMMANDS)), 'seq': seq, 'progress': 'none', 'texts': texts}
  else:
    size = draw(st.one_of(st.sampled_from(SIZES), st.integers(0, 4 * CHUNK)))
    case = {'cmd': ['download', size, draw(st.booleans())], 'seq': seq, 'progress': draw(st.sampled_from(['none', 'rec', 'raise'])),
            'cb_kind': draw(st.sampled_from(CB_KINDS)), 'texts': texts}
  if draw(st.integers(0, 3)) == 0:
    case['via'] = 'device'
    if case['cmd'][0] != 'download' and draw(st.booleans()):
      case['cmd'] = BOOTCONFIG
  return case





# ------------------------------------------------------------------ source_len that is not the length of the stream
def length_cases():
  for size in (1, CHUNK - 1, CHUNK, CHUNK + 1, 2 * CHUNK + 1):
    for extra in (1, CHUNK, 3 * CHUNK + 5):          # the stream goes on after the image (a container with a trailer)
      yield {'lencase': 1, 'size': size, 'stream': size + extra}
    for missing in (1, size):                        # the stream ends before source_len bytes were read
      yield {'lencase': 1, 'size': size, 'stream': size - missing}


def check_length(case):
  """download(stream, source_len=n) where the stream holds more, or fewer, than n bytes: the device is told n, accepts n;
  exactly the first n bytes go out (more available), or the call fails (fewer available) - in bounded time, with no chunk
  above the chunk size and never more than n bytes."""
  r = CaseResult()
  m = fk.load()
  fp = m.fastboot_protocol
  fp.FASTBOOT_DOWNLOAD_CHUNK_SIZE_KB = 1
  size, have = case['size'], case['stream']
  content = image(max(size, have))[:have]
  dev = fk.ScriptedBootloader(['DATA%08x' % size, 'OKAYdone'])
  try:
    got = ('ok', fp.FastbootCommands(dev).download(io.StringIO(content), source_len=size))
  except fk.RunawayError as e:
    got = ('runaway', str(e))
  except Exception as e:  # pylint: disable=broad-except
    got = ('exc', type(e).__name__, str(e)[:80])
  data = dev.packets[1:]
  r.nontrivial = True
  r.classes = ['source-len-vs-stream', 'longer' if have > size else 'shorter', 'size:%d' % size]
  if got[0] == 'runaway':
    r.bad('C16/length/transfer-never-ends', '%r: %s; packet sizes %r ...' % (case, got[1], [len(p) for p in data[:6]]))
    return r
  if sum(len(p) for p in data) > size:
    r.bad('C16/length/more-than-announced-sent', '%r: announced %d bytes, sent %d' % (case, size, sum(len(p) for p in data)))
  if any(len(p) > CHUNK for p in data):
    r.bad('C16/length/chunk-too-large', '%r: %r' % (case, [len(p) for p in data]))
  if have > size:
    if got != ('ok', 'done') or ''.join(data) != content[:size]:
      r.bad('C16/length/image-bytes', '%r: result %r, %d bytes sent, the image is the first %d bytes of the stream' % (case, got, len(''.join(data)), size))
  elif got[0] == 'ok':
    r.bad('C16/length/short-stream-reported-as-success', '%r: only %d of %d bytes existed, download() returned %r' % (case, have, size, got[1]))
  return r


# ------------------------------------------------------------------ retried commands (FastbootDevice with num_retries >= 1)
def retry_cases():
  for size in (1, CHUNK - 1, CHUNK, CHUNK + 1, 2 * CHUNK + 1):
    for header in (0, 7, CHUNK):
      for first in (['FAIL'], ['DATA!'], ['INFO', 'FAIL'], ['FAIL', 'FAIL']):
        yield {'retry': 1, 'size': size, 'header': header, 'first': first, 'retries': len([x for x in first if x != 'INFO'])}
      # the same without source_len: the image is whatever the stream still holds
      yield {'retry': 1, 'size': size, 'header': header, 'first': ['FAIL'], 'retries': 1, 'no_len': True}


def check_retry(case):
  """The image is a file object positioned behind a vendor header (source_len given); the first attempt(s) fail before the
  data phase, the device then accepts.  Every attempt announces the same size, and the accepted one transmits exactly the
  image - the bytes from the position the caller handed over."""
  import types  # pylint: disable=g-import-not-at-top
  r = CaseResult()
  m = fk.load()
  fp = m.fastboot_protocol
  fp.FASTBOOT_DOWNLOAD_CHUNK_SIZE_KB = 1
  from openhtf.plugs.usb import fastboot_device  # pylint: disable=g-import-not-at-top
  size, header = case['size'], case['header']
  img = image(size)
  stream = io.StringIO('H' * header + img)
  stream.seek(header)
  responses = []
  for a in case['first']:
    responses.append({'FAIL': 'FAILbusy', 'DATA!': 'DATA%08x' % (size + 1), 'INFO': 'INFOwait'}[a])
  responses += ['DATA%08x' % size, 'OKAYdone']
  dev = fk.ScriptedBootloader(responses)
  saved_time = fastboot_device.time
  fastboot_device.time = types.SimpleNamespace(sleep=lambda s_: None)      # the pause between attempts
  try:
    fd = fastboot_device.FastbootDevice.connect(dev, num_retries=case['retries'])
    try:
      got = ('ok', fd.download(stream, **({} if case.get('no_len') else {'source_len': size})))
    except (Exception, fk.RunawayError) as e:  # pylint: disable=broad-except
      got = ('exc', type(e).__name__, str(e)[:80])
  finally:
    fastboot_device.time = saved_time
  r.nontrivial = header > 0
  r.classes = ['retry', 'header:%d' % header, 'size:%d' % size, 'first:' + '+'.join(case['first'])]
  cmds = [p for p in dev.packets if p.startswith('download:')]
  data = [p for p in dev.packets if not p.startswith('download:')]
  if got != ('ok', 'done'):
    r.bad('C16/retry/unexpected-result', '%r: download() gave %r; packets %r' % (case, got, [p[:20] for p in dev.packets[:8]]))
  if cmds != ['download:%08x' % size] * (case['retries'] + 1):
    r.bad('C16/retry/command-packets', '%r: command packets %r' % (case, cmds))
  if ''.join(data) != img:
    r.bad('C16/retry/image-bytes', '%r: %d data packets carrying %d bytes, starting %r; the image has %d bytes starting %r' % (
        case, len(data), len(''.join(data)), ''.join(data)[:12], size, img[:12]))
  if any(len(p) > CHUNK for p in data):
    r.bad('C16/retry/chunk-too-large', '%r: packet sizes %r' % (case, [len(p) for p in data]))
  return r


# ------------------------------------------------------------------ the chunk size as an operator configures it: the flag
def flaginit_case(case):
  """case = {'flaginit': n_threads, 'kb': 1|2, 'plan': {...}}: n threads make their first use of the USB plugs at once (each
  calls usb.init_dependent_flags(), as every handle open does), then download an image; the process was started with
  --fastboot_download_chunk_size_kb=<kb>."""
  def fn(s):
    import sys as _sys  # pylint: disable=g-import-not-at-top
    m = fk.load()
    fp = m.fastboot_protocol
    usb = _sys.modules['openhtf.plugs.usb']
    from openhtf.util import functions  # pylint: disable=g-import-not-at-top
    saved = (usb.init_dependent_flags, fp.FASTBOOT_DOWNLOAD_CHUNK_SIZE_KB, list(_sys.argv))
    usb.init_dependent_flags = functions.call_once(usb.init_dependent_flags.__wrapped__)      # a fresh process: not run yet
    fp.FASTBOOT_DOWNLOAD_CHUNK_SIZE_KB = 1024
    _sys.argv[:] = ['station.py', '--fastboot_download_chunk_size_kb=%d' % case['kb']]
    log = []
    size = case['kb'] * 1024 * 2 + 1

    def worker(i):
      try:
        usb.init_dependent_flags()
      except Exception as e:  # pylint: disable=broad-except
        log.append(('init-raised', i, type(e).__name__, str(e)[:80]))
        return
      dev = fk.ScriptedBootloader(['DATA%08x' % size, 'OKAY'])
      try:
        fp.FastbootCommands(dev).download(io.StringIO(image(size)), source_len=size)
      except Exception as e:  # pylint: disable=broad-except
        log.append(('download-raised', i, type(e).__name__, str(e)[:80]))
        return
      log.append(('chunks', i, [len(p) for p in dev.packets[1:]]))

    try:
      import threading as _t  # pylint: disable=g-import-not-at-top
      ths = [_t.Thread(target=worker, args=(i,), name='station%d' % i) for i in range(case['flaginit'])]
      for t in ths:
        t.daemon = True
        t.start()
      for t in ths:
        t.join()
    finally:
      usb.init_dependent_flags, fp.FASTBOOT_DOWNLOAD_CHUNK_SIZE_KB = saved[0], saved[1]
      _sys.argv[:] = saved[2]
    return log

  return fn


def check_flaginit(case):
  from vf import vmode  # pylint: disable=g-import-not-at-top
  from vf import vsched as V  # pylint: disable=g-import-not-at-top
  r = CaseResult()
  plan_ = {int(k): v for k, v in (case.get('plan') or {}).items()}
  s, log, exc = vmode.run(flaginit_case(case), plan=plan_, time_limit=1e4, watchdog_s=20.0, max_steps=60000)
  r.classes = ['flaginit', 'threads:%d' % case['flaginit'], 'preempted' if s.effective_preemptions else 'default-schedule']
  r.nontrivial = bool(s.effective_preemptions)
  if s.failure is not None:
    if s.failure[0] in ('deadlock', 'steplimit'):
      r.bad('C16/flaginit/hang', '%r: %s' % (case, s.failure[1][:400]))
      return r, s
    raise RuntimeError('scheduler failure: %r' % (s.failure,))
  if exc is not None:
    raise exc
  limit = case['kb'] * 1024
  for e in log:
    if e[0] == 'init-raised':
      r.bad('C16/flaginit/first-use-raised/%s' % e[2], '%r: thread %d: init_dependent_flags() raised %s(%s)' % (case, e[1], e[2], e[3]))
    elif e[0] == 'download-raised':
      r.bad('C16/flaginit/download-raised/%s' % e[2], '%r: thread %d: %s' % (case, e[1], e[3]))
    elif e[0] == 'chunks':
      if max(e[2]) > limit:
        r.bad('C16/flaginit/chunk-larger-than-configured', '%r: thread %d sent chunks of %r bytes, configured chunk size is %d bytes' % (case, e[1], e[2], limit))
      if sum(e[2]) != limit * 2 + 1:
        r.bad('C16/flaginit/wrong-total', '%r: thread %d sent %d bytes of %d' % (case, e[1], sum(e[2]), limit * 2 + 1))
  return r, s


def flaginit_setup():
  from vf import vmode  # pylint: disable=g-import-not-at-top
  from vf import vsched as V  # pylint: disable=g-import-not-at-top
  import sys as _sys  # pylint: disable=g-import-not-at-top
  vmode.setup(usb=True)
  m = fk.load()
  from openhtf.util import functions, argv  # pylint: disable=g-import-not-at-top
  usb = _sys.modules['openhtf.plugs.usb']
  V.install_proxies([functions])
  V.monitor_lines(V.code_objects_of(functions.call_once, argv.StoreInModule, usb.init_dependent_flags.__wrapped__))


def plan(tier, seed):
  maxlen = 3 if tier == 'quick' else 4
  nsh = 16
  jobs = [{'kind': 'enum', 'name': 'enum%d' % s, 'shard': s, 'nshards': nsh, 'maxlen': maxlen} for s in range(nsh)]
  for i in range(4):
    jobs.append({'kind': 'hyp', 'name': 'hyp%d' % i, 'hseed': seed * 1000 + i, 'n': 800 if tier == 'quick' else 20000})
  jobs.append({'kind': 'flaginit', 'name': 'flaginit'})
  jobs.append({'kind': 'retry', 'name': 'retry'})
  jobs.append({'kind': 'length', 'name': 'length'})
  return jobs


def run_job(job, acct):
  known = set(job.get('known', ()))
  if job['kind'] == '_regress':
    from vf import runner  # pylint: disable=g-import-not-at-top
    runner.run_regress(sys.modules[__name__], job, acct)
  elif job['kind'] == 'length':
    for case in length_cases():
      r = check_length(case)
      acct.case(case, r.nontrivial, r.classes)
      for sig, detail in r.violations:
        (acct.known if sig in known else acct.violation)(sig, case, detail)
    acct.exhaustive_parts.append('source_len vs stream length: 5 sizes x {1, chunk, 3 chunks+5 more; 1 or all bytes missing}')
  elif job['kind'] == 'retry':
    for case in retry_cases():
      r = check_retry(case)
      acct.case(case, r.nontrivial, r.classes)
      for sig, detail in r.violations:
        (acct.known if sig in known else acct.violation)(sig, case, detail)
    acct.exhaustive_parts.append('retried download through FastbootDevice: 5 sizes x 3 stream offsets x 4 failing first attempts')
  elif job['kind'] == 'flaginit':
    flaginit_setup()
    for nthreads in (2, 3):
      for kb in (1, 2):
        base = {'flaginit': nthreads, 'kb': kb}
        check_flaginit(base)
        r0, s0 = check_flaginit(base)
        acct.case(base, r0.nontrivial, r0.classes)
        for sig, detail in r0.violations:
          (acct.known if sig in known else acct.violation)(sig, base, detail)
        for k in range(s0.k + 2):
          for c in range(nthreads + 1):
            case = dict(base, plan={str(k): c})
            r, _ = check_flaginit(case)
            acct.case(case, r.nontrivial, r.classes)
            for sig, detail in r.violations:
              (acct.known if sig in known else acct.violation)(sig, case, detail)
    acct.exhaustive_parts.append('first use of the USB flags by 2-3 threads at once: every single preemption')
  elif job['kind'] == 'enum':
    for i, case in enumerate(exhaustive_cases(job['maxlen'])):
      if i % job['nshards'] != job['shard']:
        continue
      r = check(case)
      acct.case(case, r.nontrivial, r.classes + ['enum'])
      for sig, detail in r.violations:
        (acct.known if sig in known else acct.violation)(sig, case, detail)
    if job['shard'] == 0:
      acct.exhaustive_parts.append('all response sequences over %r up to length %d x %d simple commands + %d image sizes' % (
          ALPHABET, job['maxlen'], len(COMMANDS), len(SIZES)))
  else:
    hyp.search(acct, drawn_cases(), check, seed=job['hseed'], max_examples=job['n'], known=known)


def replay(case):
  if case.get('lencase'):
    return check_length(case).violations
  if case.get('retry'):
    return check_retry(case).violations
  if case.get('flaginit'):
    flaginit_setup()
    return check_flaginit(case)[0].violations
  return check(case).violations
