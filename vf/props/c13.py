"""C13 - ADB message framing: lossless round trip, corrupt frames rejected, no interleaving, payload after header."""
import random
import sys
import threading
import time

from hypothesis import strategies as st

from vf import fakes_usb as fk
from vf import hyp
from vf.hyp import CaseResult

ID = 'C13'
LEVEL = 'exploration'
RULE = ('(a) frames: command x 32-bit arg0/arg1 x latin-1 payload (lengths 0,1,2..300 drawn, plus boundary lengths 4095/4096) -> '
        'AdbTransportAdapter.write_message; the chunks seen by the fake transport are compared with an independent struct codec '
        '(24-byte LE header: cmd, arg0, arg1, len, byte-sum, cmd^0xFFFFFFFF, then the payload) and fed back through read_message '
        '(round trip).  (b) corruptions: for every drawn frame ALL single-field corruptions are enumerated: header length +-1 / 0 / '
        'huge, short or long payload read, checksum +-1, unknown command words, header truncated to every length 0..23, empty '
        'read; each must raise AdbDataIntegrityError/AdbProtocolError and deliver nothing.  (c) raw byte streams (Hypothesis '
        'st.binary + mutated valid frames; atheris in the thorough tier when available) as the read stream: only those two '
        'exception types (or the fake\'s timeout) may escape.  (d) the timeout expires while the header is being written: the '
        'payload chunk must still follow.  (e) 2-4 writer threads / 2 reader threads on one adapter over a transport that yields '
        'between chunks: the chunk log must be a concatenation of whole (header, payload) pairs and every reader must obtain '
        'intact frames (real threads, stress).  Non-trivial = payload >= 1 byte, or a corruption, or a concurrent run in which '
        'another thread ran between a header and its payload; distinct by canonical case.')
ASSUMPTIONS = ['Payloads are latin-1 str, headers bytes (the only shapes the Python-2 era code accepts on Python 3).',
               'Zero-length payload chunks written by the adapter are ignored (the statement does not speak about them).',
               'Interleaving part uses real threads with yields injected by the fake transport; schedules are not replayable, the oracle is schedule independent.']

CMDS = fk.COMMANDS
U32 = st.one_of(st.integers(0, 2**32 - 1), st.sampled_from([0, 1, 0x01000000, 4096, 2**31, 2**32 - 1, 0xFFFFFFFE]))
PAYLOAD = st.one_of(
    st.text(alphabet=[chr(i) for i in range(256)], max_size=40),
    st.integers(0, 300).flatmap(lambda n: st.text(alphabet=[chr(i) for i in range(256)], min_size=n, max_size=n)),
    st.sampled_from([0, 1, 4095, 4096]).flatmap(lambda n: st.sampled_from(['\x00', '\xff', 'a']).map(lambda c: c * n)))


def mk_msg(m, frame):
  return m.adb_message.AdbMessage(frame[0], frame[1], frame[2], frame[3])


def pt(m, ms):
  from openhtf.util import timeouts  # pylint: disable=g-import-not-at-top
  return timeouts.PolledTimeout.from_millis(ms)


def check_frame(frame):
  """frame = [cmd, arg0, arg1, payload]"""
  r = CaseResult()
  m = fk.load()
  ex = m.usb_exceptions
  cmd, a0, a1, payload = frame
  r.nontrivial = len(payload) >= 1
  r.classes = ['cmd:' + cmd, 'len:%s' % ('0' if not payload else '1' if len(payload) == 1 else '<=64' if len(payload) <= 64 else '<4095' if len(payload) < 4095 else '>=4095')]
  # (a) framing
  t = fk.ChunkTransport()
  ad = m.adb_message.AdbTransportAdapter(t)
  try:
    ad.write_message(mk_msg(m, frame), pt(m, 1000))
  except Exception as e:  # pylint: disable=broad-except
    r.bad('C13/write-raised/%s' % type(e).__name__, 'write_message(%r) raised %r' % (frame[:3] + [len(payload)], e))
    return r
  chunks = [c for c in t.written if len(c)]
  exp_header = fk.header(cmd, a0, a1, payload)
  exp = [exp_header] + ([payload] if payload else [])
  if len(chunks) < 1 or chunks[0] != exp_header:
    got = fk.parse_header(chunks[0]) if chunks and isinstance(chunks[0], bytes) and len(chunks[0]) == 24 else chunks[:1]
    r.bad('C13/header-wrong', 'header written %r, expected %r' % (got, fk.parse_header(exp_header)))
  elif chunks != exp:
    r.bad('C13/payload-wrong', 'chunks after the header: %r..., expected payload of %d bytes' % ([c[:16] for c in chunks[1:3]], len(payload)))
  # (a') the same message object sent again with other field values (a sender that re-uses one message per stream and
  # sets .data / .arg0 per chunk): every frame is framed from the values the object has when it is written
  try:
    msg = mk_msg(m, frame)
    t2 = fk.ChunkTransport()
    ad2 = m.adb_message.AdbTransportAdapter(t2)
    ad2.write_message(msg, pt(m, 1000))
    payload2 = payload[::-1] + 'Z'
    msg.data = payload2
    msg.arg0 = (a0 + 1) & 0xFFFFFFFF
    ad2.write_message(msg, pt(m, 1000))
    chunks2 = [c for c in t2.written if len(c)]
    exp2 = exp + [fk.header(cmd, (a0 + 1) & 0xFFFFFFFF, a1, payload2), payload2]
    if chunks2 != exp2:
      r.bad('C13/reused-message-framed-from-stale-values', 'second write of the same message object: wrote %r, expected header %r + %d payload bytes' % (
          [fk.parse_header(c) if isinstance(c, bytes) and len(c) == 24 else c[:12] for c in chunks2[len(exp):]],
          fk.parse_header(exp2[len(exp)]), len(payload2)))
  except Exception as e:  # pylint: disable=broad-except
    r.bad('C13/write-raised/%s' % type(e).__name__, 'rewriting a message object raised %r' % (e,))
  # (b) round trip through read_message
  rt = fk.ChunkTransport(fk.frame_chunks(cmd, a0, a1, payload))
  try:
    got = m.adb_message.AdbTransportAdapter(rt).read_message(pt(m, 1000))
    if (got.command, got.arg0, got.arg1, got.data) != (cmd, a0, a1, payload):
      r.bad('C13/round-trip-differs', 'read back %r, sent %r' % ((got.command, got.arg0, got.arg1, got.data[:20]), (cmd, a0, a1, payload[:20])))
  except Exception as e:  # pylint: disable=broad-except
    r.bad('C13/round-trip-raised/%s' % type(e).__name__, 'reading a valid frame raised %r' % (e,))
  # corruptions
  n_corr = 0
  for name, chunks_in in corruptions(cmd, a0, a1, payload):
    n_corr += 1
    ct = fk.ChunkTransport(chunks_in)
    try:
      got = m.adb_message.AdbTransportAdapter(ct).read_message(pt(m, 1000))
      r.bad('C13/corrupt-frame-accepted/%s' % name.split(':')[0], '%s: delivered %r' % (name, got))
    except (ex.AdbDataIntegrityError, ex.AdbProtocolError):
      pass
    except ex.UsbReadFailedError:
      if not name.startswith('no-payload'):
        r.bad('C13/corrupt-frame-wrong-error/%s' % name.split(':')[0], '%s: transport timeout escaped' % name)
    except Exception as e:  # pylint: disable=broad-except
      r.bad('C13/corrupt-frame-wrong-error/%s/%s' % (name.split(':')[0], type(e).__name__), '%s: raised %r' % (name, e))
  r.classes.append('corruptions:%d' % n_corr)
  # (e) the payload read fails once (timeout) after the header was consumed; the frame is still read back intact by the
  # next call - on the plain adapter and on the logging one (--adb_message_log)
  if payload:
    for cls in (m.adb_message.AdbTransportAdapter, m.adb_message.DebugAdbTransportAdapter):
      chunks_in = list(fk.frame_chunks(cmd, a0, a1, payload))

      class FailOnce(fk.ChunkTransport):
        failed = False

        def read(self, length, timeout_ms=None):
          if len(self.to_read) == 1 and not self.failed:      # about to hand out the payload: time out once instead
            self.failed = True
            raise fk.timeout_error()
          return fk.ChunkTransport.read(self, length, timeout_ms)

      tr = FailOnce(chunks_in)
      ad = cls(tr)
      try:
        ad.read_message(pt(m, 1000))
        r.bad('C13/late-payload/first-read-did-not-fail', 'harness: %s' % cls.__name__)
      except ex.CommonUsbError:
        pass
      except Exception as e:  # pylint: disable=broad-except
        r.bad('C13/late-payload/wrong-error/%s' % type(e).__name__, '%s: first read raised %r' % (cls.__name__, e))
      try:
        got = ad.read_message(pt(m, 1000))
        if (got.command, got.arg0, got.arg1, got.data) != (cmd, a0 & 0xFFFFFFFF, a1 & 0xFFFFFFFF, payload):
          r.bad('C13/late-payload/frame-changed', '%s: read back %r' % (cls.__name__, got))
      except Exception as e:  # pylint: disable=broad-except
        r.bad('C13/late-payload/frame-lost/%s' % type(e).__name__, '%s: the read after a timed-out payload read raised %r' % (cls.__name__, e))
  # (d) timeout expires during the header write
  if payload:
    from openhtf.util import timeouts  # pylint: disable=g-import-not-at-top
    timeout = timeouts.PolledTimeout.from_millis(5000)

    def on_write(tr, data):
      if isinstance(data, bytes) and len(data) == 24:
        timeout.expire()

    t2 = fk.ChunkTransport(on_write=on_write)
    try:
      m.adb_message.AdbTransportAdapter(t2).write_message(mk_msg(m, frame), timeout)
    except Exception as e:  # pylint: disable=broad-except
      r.bad('C13/expired-timeout-write-raised/%s' % type(e).__name__, repr(e))
    if [c for c in t2.written if len(c)] != exp:
      r.bad('C13/payload-dropped-after-timeout', 'timeout expired after the header; chunks written: %r' % ([len(c) for c in t2.written],))
    # the same on a clock that ticks 1 us per reading, with the deadline falling k readings after the header write began
    # (k = 0: expired during the header write): the payload write must be given time to happen - a transport that takes a
    # budget of 0 ms at its word (non-blocking socket, serial line) would send the header alone
    import types  # pylint: disable=g-import-not-at-top
    real_time_mod = timeouts.time
    for k in range(0, 8):
      clock = {'now': 1000.0}

      def ticking():
        clock['now'] += 1e-6
        return clock['now']

      timeouts.time = types.SimpleNamespace(time=ticking, sleep=real_time_mod.sleep, monotonic=ticking)
      try:
        tmo = timeouts.PolledTimeout.from_millis(5000)

        def on_write_k(tr, data, tmo=tmo, k=k):
          if isinstance(data, bytes) and len(data) == 24:
            tmo.timeout_s = (clock['now'] - tmo.start) + k * 1e-6      # the deadline is k clock readings away

        t3 = fk.ChunkTransport(on_write=on_write_k)
        try:
          m.adb_message.AdbTransportAdapter(t3).write_message(mk_msg(m, frame), tmo)
        except Exception as e:  # pylint: disable=broad-except
          r.bad('C13/expired-timeout-write-raised/%s' % type(e).__name__, repr(e))
      finally:
        timeouts.time = real_time_mod
      budgets = [b for c, b in zip(t3.written, t3.budgets) if len(c)]
      if [c for c in t3.written if len(c)] != exp:
        r.bad('C13/payload-dropped-after-timeout', 'deadline %d clock readings after the header write; chunks written: %r' % (k, [len(c) for c in t3.written]))
      elif budgets[-1] is not None and budgets[-1] <= 0:
        r.bad('C13/payload-write-without-time-budget', 'deadline %d clock readings after the header write: the payload write was given %r ms (header: %r ms)' % (
            k, budgets[-1], budgets[0]))
  return r, n_corr


def corruptions(cmd, a0, a1, payload):
  L = len(payload)
  good = fk.header(cmd, a0, a1, payload)
  out = []
  # header says a different length than what the transport delivers
  if L >= 1:
    out.append(('short-payload:-1', [good, payload[:-1]]))
    out.append(('short-payload:empty', [good, '']))
    out.append(('len-field:+1', [fk.header(cmd, a0, a1, payload, length=L + 1), payload]))
    if payload[-1] != '\x00':  # dropping a trailing NUL keeps the byte-sum: that frame would be self-consistent
      out.append(('len-field:-1', [fk.header(cmd, a0, a1, payload, length=L - 1)] + ([payload[:L - 1]] if L - 1 > 0 else [])))
    out.append(('long-payload:+1', [good, payload + 'x']))
    out.append(('checksum:+1', [fk.header(cmd, a0, a1, payload, csum=(fk.checksum(payload) + 1) & 0xFFFFFFFF), payload]))
    out.append(('checksum:-1', [fk.header(cmd, a0, a1, payload, csum=(fk.checksum(payload) - 1) & 0xFFFFFFFF), payload]))
    flipped = chr(ord(payload[0]) ^ 1) + payload[1:]
    out.append(('payload-bit-flip', [good, flipped]))
  else:
    out.append(('len-field:+1', [fk.header(cmd, a0, a1, payload, length=1), '']))
    out.append(('checksum:+1', [fk.header(cmd, a0, a1, payload, csum=1)]))
  # words of the other protocol layers spoken over the same wire (filesync, fastboot) are not ADB commands either
  other_layers = [int.from_bytes(wd, 'little') for wd in (b'STAT', b'LIST', b'SEND', b'RECV', b'DENT', b'DONE', b'DATA', b'FAIL', b'QUIT', b'INFO')]
  for w in [0, 0xFFFFFFFF, fk.cmd_word(cmd) ^ 0x20, fk.cmd_word(cmd) + 1, int.from_bytes(b'XXXX', 'little')] + other_layers:
    if w.to_bytes(4, 'little') not in [c.encode() for c in fk.COMMANDS]:
      out.append(('unknown-command:%08x' % w, [fk.header(cmd, a0, a1, payload, word=w)] + ([payload] if L else [])))
  for n in range(0, 24):
    out.append(('truncated-header:%d' % n, [good[:n]]))
  return [o for o in out if o]


class ByteStreamTransport(object):
  """Serves reads from one byte string: 24-byte reads yield bytes (headers), other reads yield latin-1 str (payloads)."""

  def __init__(self, data):
    self.data = data
    self.pos = 0
    self.written = []
    self.expect_payload = False

  def read(self, length, timeout_ms=None):
    if self.pos >= len(self.data):
      raise fk.timeout_error()
    c = self.data[self.pos:self.pos + length]
    self.pos += len(c)
    if self.expect_payload:   # the read that follows a complete header announcing data
      self.expect_payload = False
      return c.decode('latin-1')
    if len(c) == 24:
      self.expect_payload = fk.parse_header(c)['len'] > 0
    return c

  def write(self, data, timeout_ms=None):
    self.written.append(data)

  def close(self):
    pass


def check_stream(raw):
  """(c) arbitrary bytes (latin-1 str) as the device's byte stream. Only protocol errors may escape."""
  r = CaseResult()
  m = fk.load()
  ex = m.usb_exceptions
  data = raw.encode('latin-1')
  t = ByteStreamTransport(data)
  ad = m.adb_message.AdbTransportAdapter(t)
  delivered = 0
  for _ in range(len(data) // 24 + 2):
    before = t.pos
    try:
      msg = ad.read_message(pt(m, 1000))
      delivered += 1
      # whatever is delivered must agree with an independent parse of the bytes consumed
      h = fk.parse_header(data[before:before + 24])
      payload = data[before + 24:before + 24 + h['len']].decode('latin-1')
      if (h['cmd'] is None or msg.command != h['cmd'] or msg.arg0 != h['arg0'] or msg.arg1 != h['arg1'] or msg.data != payload or
          len(payload) != h['len'] or fk.checksum(payload) != h['sum']):
        r.bad('C13/raw/delivered-inconsistent-frame', 'delivered %r from header %r payload %r' % (msg, h, payload[:20]))
    except (ex.AdbDataIntegrityError, ex.AdbProtocolError):
      pass
    except ex.UsbReadFailedError:
      break
    except Exception as e:  # pylint: disable=broad-except
      r.bad('C13/raw/unexpected-exception/%s' % type(e).__name__, 'stream of %d bytes raised %r at offset %d' % (len(data), e, before))
      break
  r.nontrivial = True
  r.classes = ['raw', 'raw-delivered:%d' % min(delivered, 3)]
  return r


class YieldingTransport(object):
  """Transport for the concurrency part: yields the CPU inside write/read so that unprotected sections interleave."""

  def __init__(self, frames_to_read=(), seed=0):
    self.lock = threading.Lock()
    self.written = []
    self.rnd = random.Random(seed)
    self.to_read = list(frames_to_read)
    self.rpos = 0
    self.interleave_opportunities = 0
    self.in_write = 0
    self.timeouts = {}
    self.expired = 0

  def _yield(self):
    for _ in range(self.rnd.choice([1, 1, 2, 5])):
      time.sleep(0)
    if self.rnd.random() < 0.3:
      time.sleep(0.0002)

  def write(self, data, timeout_ms=None):
    self.written.append((threading.get_ident(), data))
    if isinstance(data, bytes) and len(data) == 24 and self.rnd.random() < 0.35:
      to = self.timeouts.get(threading.get_ident())
      if to is not None:
        to.expire()          # the writer's timeout expires between its header and its payload
        self.expired += 1
    self._yield()
    return len(data)

  def read(self, length, timeout_ms=None):
    with self.lock:
      if self.rpos >= len(self.to_read):
        raise fk.timeout_error()
      c = self.to_read[self.rpos]
      self.rpos += 1
    self._yield()
    return c

  def close(self):
    pass


def check_concurrent(case):
  """case = {'writers': [[frame,...],...], 'readers': n, 'seed': int}"""
  r = CaseResult()
  m = fk.load()
  ex = m.usb_exceptions
  from openhtf.util import timeouts  # pylint: disable=g-import-not-at-top
  # writers
  t = YieldingTransport(seed=case['seed'])
  ad = m.adb_message.AdbTransportAdapter(t)
  errors = []

  def writer(frames):
    try:
      for f in frames:
        to = timeouts.PolledTimeout.from_millis(5000)
        t.timeouts[threading.get_ident()] = to
        ad.write_message(mk_msg(m, f), to)
    except Exception as e:  # pylint: disable=broad-except
      errors.append(e)

  ths = [threading.Thread(target=writer, args=(w,)) for w in case['writers']]
  for th in ths:
    th.start()
  for th in ths:
    th.join(20)
  if errors:
    r.bad('C13/concurrent/writer-raised', repr(errors[0]))
  chunks = [(tid, c) for tid, c in t.written if len(c)]
  # parse the chunk log as whole frames
  expected = sorted((f[0], f[1], f[2], f[3]) for w in case['writers'] for f in w)
  got, i, bad = [], 0, None
  other_between = False
  while i < len(chunks):
    tid, c = chunks[i]
    if not (isinstance(c, bytes) and len(c) == 24):
      bad = 'chunk %d is not a header: %r' % (i, c[:20])
      break
    h = fk.parse_header(c)
    payload = ''
    if h['len']:
      if i + 1 >= len(chunks) or isinstance(chunks[i + 1][1], bytes):
        bad = 'header %r at chunk %d is not followed by its payload' % (h, i)
        break
      payload = chunks[i + 1][1]
      if chunks[i + 1][0] != tid:
        bad = 'payload after header %r was written by another thread' % (h,)
        break
      i += 1
    if len(payload) != h['len'] or fk.checksum(payload) != h['sum']:
      bad = 'frame %r carries a payload that does not match its header' % (h,)
      break
    got.append((h['cmd'], h['arg0'], h['arg1'], payload))
    i += 1
  if bad:
    r.bad('C13/concurrent/writers-interleaved', bad)
  elif sorted(got) != expected:
    r.bad('C13/concurrent/frames-lost-or-duplicated', '%d frames on the wire, %d written' % (len(got), len(expected)))
  # readers
  frames = [f for w in case['writers'] for f in w]
  rchunks = [c for f in frames for c in fk.frame_chunks(*f)]
  rt = YieldingTransport(rchunks, seed=case['seed'] + 1)
  rad = m.adb_message.AdbTransportAdapter(rt)
  got_msgs, rerrors = [], []

  def reader():
    while True:
      try:
        msg = rad.read_message(timeouts.PolledTimeout.from_millis(5000))
        got_msgs.append((msg.command, msg.arg0, msg.arg1, msg.data))
      except ex.UsbReadFailedError:
        return
      except Exception as e:  # pylint: disable=broad-except
        rerrors.append(e)
        return

  ths = [threading.Thread(target=reader) for _ in range(case['readers'])]
  for th in ths:
    th.start()
  for th in ths:
    th.join(20)
  if rerrors:
    r.bad('C13/concurrent/readers-interleaved', 'a reader got %r (header/payload stolen by another reader)' % (rerrors[0],))
  elif sorted(got_msgs) != expected:
    r.bad('C13/concurrent/readers-lost-frames', '%d read, %d sent' % (len(got_msgs), len(expected)))
  tids = [tid for tid, _ in chunks]
  switches = sum(1 for a, b in zip(tids, tids[1:]) if a != b)
  r.nontrivial = switches >= 2
  r.classes = ['concurrent', 'writers:%d' % len(case['writers']), 'switches:%s' % ('0' if not switches else '1-3' if switches <= 3 else '>3'), 'expired-timeouts:%s' % ('0' if not t.expired else '>0')]
  return r


def parse_wire(chunks, expected):
  """Parses a chunk log [(writer, chunk)] as whole frames. Returns an error string or None."""
  got, i = [], 0
  chunks = [(w, c) for w, c in chunks if len(c)]
  while i < len(chunks):
    w, c = chunks[i]
    if not (isinstance(c, bytes) and len(c) == 24):
      return 'chunk %d is not a header: %r' % (i, c[:20])
    h = fk.parse_header(c)
    payload = ''
    if h['len']:
      if i + 1 >= len(chunks) or isinstance(chunks[i + 1][1], bytes):
        return 'header %r at chunk %d is not followed by its payload' % (h, i)
      payload = chunks[i + 1][1]
      if chunks[i + 1][0] != w:
        return 'payload after header %r was written by another thread' % (h,)
      i += 1
    if len(payload) != h['len'] or fk.checksum(payload) != h['sum']:
      return 'frame %r carries a payload that does not match its header' % (h,)
    got.append((h['cmd'], h['arg0'], h['arg1'], payload))
    i += 1
  if sorted(got) != sorted(expected):
    return '%d frames on the wire, %d written' % (len(got), len(expected))
  return None


def check_scheduled(case):
  """(e') two writers on one adapter under the deterministic scheduler; a writer's timeout may expire during its header write.

  case = {'writers': [[frame, ...], [frame, ...]], 'expire': [bool per writer], 'plan': {k: choice}}
  """
  from vf import vmode  # pylint: disable=g-import-not-at-top
  from vf import vsched as V  # pylint: disable=g-import-not-at-top
  import threading as real_threading  # pylint: disable=g-import-not-at-top
  r = CaseResult()
  vmode.setup(usb=True)
  vmode.quiet_logging()
  m = fk.load()
  V.monitor_lines(V.code_objects_of(m.adb_message.AdbTransportAdapter))
  plan = {int(k): v for k, v in (case.get('plan') or {}).items()}

  def fn(s):
    from openhtf.util import timeouts  # pylint: disable=g-import-not-at-top
    wire = []
    current = {}

    class T(object):
      def write(self, data, timeout_ms=None):
        me = s.me().idx
        wire.append((me, data))
        if isinstance(data, bytes) and len(data) == 24 and current.get(me) is not None and current[me][1]:
          current[me][0].expire()
        s.yield_point('transport.write')
        return len(data)

      def read(self, n, timeout_ms=None):
        raise fk.timeout_error()

      def close(self):
        pass

    ad = m.adb_message.AdbTransportAdapter(T())
    errs = []

    def writer(i):
      for f in case['writers'][i]:
        to = timeouts.PolledTimeout.from_millis(5000)
        current[s.me().idx] = (to, case['expire'][i])
        try:
          ad.write_message(mk_msg(m, f), to)
        except Exception as e:  # pylint: disable=broad-except
          errs.append(repr(e))

    ths = []
    for i in range(len(case['writers'])):
      t = real_threading.Thread(target=writer, args=(i,), name='writer%d' % i)
      t.daemon = True
      t.start()
      ths.append(t)
    for t in ths:
      t.join()
    return wire, errs

  s = V.Scheduler(plan=plan, time_limit=1e4, max_steps=50000)
  res, exc = s.run(lambda: fn(s), watchdog_s=15.0)
  if s.failure is not None:
    if s.failure[0] in ('deadlock', 'steplimit'):
      r.bad('C13/scheduled/hang', s.failure[1][:300])
      return r, s
    raise RuntimeError('scheduler failure %r' % (s.failure,))
  if exc is not None:
    r.bad('C13/scheduled/raised', repr(exc))
    return r, s
  wire, errs = res
  if errs:
    r.bad('C13/scheduled/writer-raised', errs[0])
  expected = [tuple(f) for w in case['writers'] for f in w]
  bad = parse_wire(wire, expected)
  if bad:
    r.bad('C13/scheduled/writers-interleaved', '%s; expire=%r plan=%r wire=%r' % (bad, case['expire'], case.get('plan'), [(w, len(c)) for w, c in wire]))
  r.nontrivial = bool(s.effective_preemptions)
  r.classes = ['scheduled', 'expire:%s' % any(case['expire']), 'preemptions:%d' % min(len(s.effective_preemptions), 3)]
  return r, s


SCHED_CASES = [
    {'writers': [[['WRTE', 1, 2, 'aaaa']], [['OKAY', 3, 4, 'bb']]], 'expire': [True, False]},
    {'writers': [[['WRTE', 1, 2, 'aaaa'], ['CLSE', 1, 2, 'c']], [['WRTE', 3, 4, 'bb'], ['WRTE', 3, 4, 'dd']]], 'expire': [True, True]},
    {'writers': [[['WRTE', 1, 2, 'aaaa']], [['OKAY', 3, 4, 'bb']], [['OPEN', 5, 0, 'x']]], 'expire': [False, False, False]},
    # header-only messages (OKAY/CLSE carry no payload) racing with a payload-carrying writer
    {'writers': [[['WRTE', 1, 2, 'aaaa']], [['OKAY', 3, 4, '']]], 'expire': [False, False]},
    {'writers': [[['WRTE', 1, 2, 'aaaa'], ['OKAY', 1, 2, '']], [['CLSE', 3, 4, ''], ['WRTE', 3, 4, 'dd']]], 'expire': [True, False]},
    {'writers': [[['OKAY', 1, 2, '']], [['WRTE', 3, 4, 'bbb']], [['CLSE', 5, 6, '']]], 'expire': [False, False, False]},
]


FRAME = st.tuples(st.sampled_from(CMDS), U32, U32, PAYLOAD).map(list)
RAW_PIECE = st.one_of(
    st.binary(max_size=30).map(lambda b: b.decode('latin-1')),
    FRAME.map(lambda f: fk.header(*f).decode('latin-1') + f[3]),
    FRAME.map(lambda f: fk.header(*f).decode('latin-1')),
    st.tuples(st.sampled_from(CMDS), st.integers(0, 40), st.integers(0, 5000), st.binary(max_size=40)).map(
        lambda t: fk.header(t[0], 1, 2, '', length=t[1], csum=t[2]).decode('latin-1') + t[3].decode('latin-1')),
    st.tuples(st.sampled_from(CMDS), st.binary(min_size=1, max_size=30)).map(
        lambda t: fk.header(t[0], 3, 4, t[1].decode('latin-1')).decode('latin-1') + t[1].decode('latin-1')))
RAW = st.lists(RAW_PIECE, min_size=1, max_size=5).map(''.join)


@st.composite
def concurrent_cases(draw):
  nw = draw(st.integers(2, 4))
  small = st.tuples(st.sampled_from(CMDS), st.integers(0, 9), st.integers(0, 9),
                    st.text(alphabet='abcxyz\x00\xff', min_size=1, max_size=12)).map(list)
  return {'writers': [draw(st.lists(small, min_size=3, max_size=10)) for _ in range(nw)], 'readers': draw(st.integers(2, 3)),
          'seed': draw(st.integers(0, 10**6))}


def plan(tier, seed):
  jobs = []
  q = tier == 'quick'
  for i in range(8):
    jobs.append({'kind': 'frames', 'name': 'frames%d' % i, 'hseed': seed * 1000 + i, 'n': 250 if q else 6000})
  for i in range(4):
    jobs.append({'kind': 'raw', 'name': 'raw%d' % i, 'hseed': seed * 1000 + 100 + i, 'n': 1500 if q else 40000})
  for i in range(4):
    jobs.append({'kind': 'conc', 'name': 'conc%d' % i, 'hseed': seed * 1000 + 200 + i, 'n': 40 if q else 800})
  for ci in range(len(SCHED_CASES)):
    jobs.append({'kind': 'sched', 'name': 'sched%d' % ci, 'case': ci, 'bound': 2 if (not q or ci in (0, 3)) else 1})
  return jobs


def run_job(job, acct):
  known = set(job.get('known', ()))
  if job['kind'] == '_regress':
    from vf import runner  # pylint: disable=g-import-not-at-top
    runner.run_regress(sys.modules[__name__], job, acct)
  elif job['kind'] == 'frames':
    counter = {'n': 0}

    def chk(frame):
      res = check_frame(frame)
      if isinstance(res, tuple):
        counter['n'] += res[1]
        return res[0]
      return res

    hyp.search(acct, FRAME, chk, seed=job['hseed'], max_examples=job['n'], known=known, to_json=lambda f: {'frame': f})
    acct.extra['corrupted_frames_enumerated'] += counter['n']
  elif job['kind'] == 'raw':
    hyp.search(acct, RAW, check_stream, seed=job['hseed'], max_examples=job['n'], known=known,
               to_json=lambda c: {'raw': c})
  elif job['kind'] == 'sched':
    import itertools  # pylint: disable=g-import-not-at-top
    base = SCHED_CASES[job['case']]
    r0, s0 = check_scheduled(base)
    n = s0.k + 4
    count = 0
    for b in range(0, job['bound'] + 1):
      for ks in itertools.combinations(range(n), b):
        for cs in itertools.product((0, 1), repeat=b):
          case = dict(base, plan={str(k): c for k, c in zip(ks, cs)})
          r, _ = check_scheduled(case)
          count += 1
          acct.case({'sched': case}, r.nontrivial, r.classes)
          for sig, detail in r.violations:
            (acct.known if sig in known else acct.violation)(sig, {'sched': case}, detail)
    acct.exhaustive_parts.append('scheduled writers case %d: all schedules with <=%d preemptions over %d yield points' % (job['case'], job['bound'], n))
  elif job['kind'] == 'conc':
    hyp.search(acct, concurrent_cases(), check_concurrent, seed=job['hseed'], max_examples=job['n'], known=known, shrink=False,
               to_json=lambda c: {'conc': c})


def replay(case):
  if 'frame' in case:
    res = check_frame(case['frame'])
    return (res[0] if isinstance(res, tuple) else res).violations
  if 'raw' in case:
    return check_stream(case['raw']).violations
  if 'sched' in case:
    return check_scheduled(case['sched'])[0].violations
  out = []
  for _ in range(20):  # schedules are not replayable: repeat
    out = check_concurrent(case['conc']).violations
    if out:
      break
  return out
