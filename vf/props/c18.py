"""C18 - state subscriptions never lose an update (snapshot + event protocol), under the deterministic scheduler."""
import itertools
import sys
import threading as real_threading

from hypothesis import strategies as st

from vf import hyp
from vf import ohtf
from vf import progs
from vf import vmode
from vf import vsched as V
from vf.hyp import CaseResult

ID = 'C18'
LEVEL = 'exploration'
ENGINE = 'vsched'
RULE = ('Domain A (the protocol): a SubscribableStateMixin subclass with a counter, a UserInput plug, or a frontend-aware plug polled through PlugManager.wait_for_plug_update (the station\'s long poll), with 1-2 watcher threads '
        'looping "snapshot, event = asdict_with_event(); stop if final; event.wait()" (no timeout) and 1-2 updater threads doing '
        '"mutate; notify_update()"; every source line of SubscribableStateMixin / UserInput plus every primitive operation is a '
        'yield point; ALL schedules with <=1 preemption and (sharded; complete in the thorough tier for the 1x1 configuration) <=2 '
        'preemptions are enumerated, larger ones are drawn (Hypothesis plans + seeded random-priority).  Domain B (whole runs): '
        'watcher threads attached to Test.execute() of generated programs (phases setting measurements, phase transitions, '
        'timeouts) under all single preemptions of sampled programs and drawn plans; plus single-thread sanity: each mutating API '
        '(measurement set, log, phase enter/exit, status change, dut_id via TestApi, plug prompt/respond/remove) sets a previously '
        'obtained event.  Oracle: a watcher whose snapshot is stale is never left with an unset event: every watcher terminates '
        '(the scheduler reports the deadlock otherwise, with the wait-for state), every watcher of a run observes COMPLETED.  '
        'Domain C (change, then notification): a running phase performs one mutation at a time (log through test / framework / plug '
        'loggers, scalar and dimensioned measurement values) and then lets all other threads run until they block; a watcher that '
        'renders its snapshot to base types when it takes it must by then hold the change, for EVERY single preemption over all '
        'yield points of the run (logging enabled, stdlib handler locks virtualised).  '
        'Non-trivial = a schedule in which an update lands between a watcher\'s event registration and its wait (detected from the '
        'trace), i.e. at least one effective preemption inside the protocol methods; distinct by (program, plan).')
ASSUMPTIONS = ['Preemption at source-line / primitive granularity; C-level atomicity of WeakSet.add / Event.set under the GIL is assumed.',
               'Framework logging is disabled in the scheduled runs of domains A/B; domain C enables it with scheduler-aware handler locks.']


class SchedFailure(Exception):
  pass


def _spawn(fn, name):
  t = real_threading.Thread(target=fn, name=name)
  t.daemon = True
  t.start()
  return t


# ------------------------------------------------------------------ domain A
def protocol_case(cfg):
  """cfg = {'subject': 'mixin'|'user_input', 'watchers': n, 'updaters': n, 'updates': m}. Returns fn(s)."""
  import openhtf.util as util  # pylint: disable=g-import-not-at-top

  def case(s):
    total = cfg['updaters'] * cfg['updates']
    seen = []
    if cfg['subject'] == 'mixin':
      class Counter(util.SubscribableStateMixin):
        def __init__(self):
          super(Counter, self).__init__()
          self.n = 0

        def _asdict(self):
          return {'n': self.n}

      obj = Counter()
      mu = V.VLock(s)

      def final(snap):
        return snap['n'] == total

      def update(u, j):
        with mu:
          obj.n += 1
        obj.notify_update()
    elif cfg['subject'] == 'plug_manager':
      # the station's long-poll entry point: PlugManager.wait_for_plug_update(name, last seen state, timeout)
      import openhtf.plugs as plugs_  # pylint: disable=g-import-not-at-top
      from openhtf.core import base_plugs  # pylint: disable=g-import-not-at-top

      class CounterPlug(base_plugs.FrontendAwareBasePlug):
        def __init__(self):
          super(CounterPlug, self).__init__()
          self.n = 0

        def _asdict(self):
          return {'n': self.n}

      pm = plugs_.PlugManager(plug_types={CounterPlug})
      pm.initialize_plugs()
      plug_name = pm.get_plug_name(CounterPlug) if hasattr(pm, 'get_plug_name') else '%s.%s' % (CounterPlug.__module__, CounterPlug.__name__)
      obj = pm.provide_plugs([('p', CounterPlug)])['p']
      mu = V.VLock(s)

      def final(snap):
        return snap is not None and snap['n'] == total

      def update(u, j):
        with mu:
          obj.n += 1
        obj.notify_update()

      def watcher(i):   # pylint: disable=function-redefined
        state, n_loops = None, 0
        while True:
          n_loops += 1
          new = pm.wait_for_plug_update(plug_name, state, 1000.0)
          if new is None:
            # 1000 virtual seconds passed: every update was issued long ago and this poll was not woken
            seen.append((i, 'timed-out-although-state-changed' if obj.n != (state or {}).get('n') else 'timed-out'))
            return
          state = new
          if final(state):
            seen.append((i, n_loops))
            return

      ws = [_spawn(lambda i=i: watcher(i), 'watcher%d' % i) for i in range(cfg['watchers'])]
      us = [_spawn(lambda u=u: [update(u, j) for j in range(cfg['updates'])], 'updater%d' % u) for u in range(cfg['updaters'])]
      for t in us + ws:
        t.join()
      return seen
    else:
      from openhtf.plugs import user_input  # pylint: disable=g-import-not-at-top
      obj = user_input.UserInput()
      mu = V.VLock(s)
      done = {'n': 0}

      def final(snap):
        return snap is not None and snap['message'] == 'final'

      def update(u, j):
        with mu:
          done['n'] += 1
          last = done['n'] == total
          if last:
            obj.start_prompt('final')
          else:
            pid = obj.start_prompt('q%d' % done['n'])
            obj.respond(pid, 'a')

    def watcher(i):
      n_loops = 0
      while True:
        snap, ev = obj.asdict_with_event()
        n_loops += 1
        if final(snap):
          seen.append((i, n_loops))
          return
        ev.wait()

    def updater(u):
      for j in range(cfg['updates']):
        update(u, j)

    ws = [_spawn(lambda i=i: watcher(i), 'watcher%d' % i) for i in range(cfg['watchers'])]
    us = [_spawn(lambda u=u: updater(u), 'updater%d' % u) for u in range(cfg['updaters'])]
    for t in us + ws:
      t.join()
    return seen

  return case


def run_protocol(cfg, plan=None, random_policy=None):
  vmode.setup()
  vmode.quiet_logging()
  s, res, exc = vmode.run(protocol_case(cfg), plan=plan, random_policy=random_policy, time_limit=1e6, watchdog_s=10.0)
  return s, res, exc


def judge(s, res, exc, expected_watchers, tag):
  """Returns [(sig, detail)]."""
  out = []
  if s.failure is not None:
    kind = s.failure[0]
    if kind == 'deadlock':
      out.append(('C18/%s/watcher-blocked-forever' % tag, 'lost update: %s' % s.failure[1][:600]))
    elif kind in ('watchdog', 'leak', 'steplimit'):
      raise SchedFailure('%s: %s' % (kind, s.failure[1][:2000]))
  elif exc is not None:
    out.append(('C18/%s/raised/%s' % (tag, type(exc).__name__), repr(exc)))
  elif res is None or len(res) != expected_watchers:
    out.append(('C18/%s/watcher-missed-final-state' % tag, 'watchers that saw the final state: %r of %d' % (res, expected_watchers)))
  elif any(isinstance(x[1], str) and x[1].startswith('timed-out') for x in res):
    out.append(('C18/%s/poll-timed-out-although-state-changed' % tag, 'a long poll returned None after 1000 virtual seconds: %r' % (res,)))
  return out


def in_protocol(pre):
  """An effective preemption inside the subscribe / notify protocol (tag names a protocol method)."""
  for k, frm, to, tag in pre:
    if tag and tag[0] == 'line' and tag[1] in ('asdict_with_event', 'notify_update', '_asdict', 'start_prompt', 'respond', 'remove_prompt', 'wait_for_plug_update'):
      return True
    if tag and tag[0] in ('event.wait', 'event.set', 'lock.acquire', 'lock.release'):
      return True
  return False


def check_protocol(case):
  """case = {'cfg': cfg, 'plan': {k: choice} (keys as str), 'random': [seed, p] | None}"""
  r = CaseResult()
  plan = {int(k): v for k, v in (case.get('plan') or {}).items()}
  rp = tuple(case['random']) if case.get('random') else None
  s, res, exc = run_protocol(case['cfg'], plan, rp)
  for sig, detail in judge(s, res, exc, case['cfg']['watchers'], 'protocol-' + case['cfg']['subject']):
    r.bad(sig, detail + ' plan=%r' % (case.get('plan') or case.get('random'),))
  r.nontrivial = in_protocol(s.effective_preemptions)
  r.classes = ['A:' + case['cfg']['subject'], 'w%du%d' % (case['cfg']['watchers'], case['cfg']['updaters']),
               'preemptions:%d' % min(len(s.effective_preemptions), 4)]
  return r


def enum_plans(n, bound, shard, nshards, choices=(0, 1)):
  """All plans with exactly `bound` preemptions among n yield points."""
  i = 0
  for ks in itertools.combinations(range(n), bound):
    for cs in itertools.product(choices, repeat=bound):
      i += 1
      if i % nshards == shard:
        yield dict(zip(ks, cs))


# ------------------------------------------------------------------ domain B
def whole_run_case(prog, n_watchers):
  def case(s):
    htf = ohtf.reset_case(cancel_timeout_s=0.05, plug_teardown_timeout_s=0.05, **progs.conf_values(prog))
    vmode.quiet_logging()
    ctx = progs.Ctx()
    test, tsarg = progs.build_test(prog, ctx, htf)
    seen = []
    started = V.VEvent(s)

    def watcher(i):
      started.wait()
      state = test.state
      if state is None:
        seen.append((i, 'no-state'))
        return
      statuses = []
      while True:
        snap, ev = state.asdict_with_event()
        statuses.append(snap['status'])
        if snap['status'] == 'COMPLETED':
          seen.append((i, 'completed'))
          return
        ev.wait()

    ws = [_spawn(lambda i=i: watcher(i), 'watcher%d' % i) for i in range(n_watchers)]
    first = [n for n, _ in progs.walk(prog['nodes']) if n['t'] == 'phase']
    if first:
      ctx.hooks[first[0]['id']] = lambda test_api, inv, plugs: started.set()
    ret = test.execute(test_start=tsarg)
    started.set()
    ctx.cancel.set()
    for w in ws:
      w.join()
    return seen

  return case


def check_whole(case):
  """case = {'prog': prog, 'watchers': n, 'plan': {...}, 'random': [seed,p]|None, 'sweep': bool}"""
  r = CaseResult()
  vmode.setup()
  V.install_proxies([progs])
  plan = {int(k): v for k, v in (case.get('plan') or {}).items()}
  rp = tuple(case['random']) if case.get('random') else None
  fn = whole_run_case(case['prog'], case['watchers'])
  s, res, exc = vmode.run(fn, plan=plan, random_policy=rp, time_limit=1e7, watchdog_s=20.0)
  for sig, detail in judge(s, [x for x in (res or []) if x[1] in ('completed', 'no-state')], exc, case['watchers'], 'run'):
    r.bad(sig, detail + ' plan=%r' % (case.get('plan') or case.get('random'),))
  n_points = s.k
  r.nontrivial = in_protocol(s.effective_preemptions)
  r.classes = ['B:whole-run', 'watchers:%d' % case['watchers'], 'preemptions:%d' % min(len(s.effective_preemptions), 4)]
  return r, n_points


# ------------------------------------------------------------------ domain C: change, THEN notification
# only what the statement lists: log records and measurement values (attachments / dut_id are not promised a notification)
ORDERED_STEPS = ['log-info', 'measure', 'log-framework', 'measure-dim', 'log-plug', 'measure-dim-2', 'measure-pair', 'measure-dim-pair',
                 'measure-override', 'measure-dim-override', 'measure-dim-after-override', 'measure-dim-after-readback']
_ORD = {'ready': False}


def ordered_case():
  """A running phase performs one mutation at a time and then lets every other thread run until it blocks (quiescence); a
  snapshot-then-wait watcher that renders its snapshot to base types at snapshot time must by then have seen the change,
  whatever single preemption happened inside the update."""
  import logging  # pylint: disable=g-import-not-at-top

  def case(s):
    htf = ohtf.reset_case(cancel_timeout_s=0.05, plug_teardown_timeout_s=0.05)
    from openhtf.util import data  # pylint: disable=g-import-not-at-top
    logging.getLogger('openhtf').setLevel(logging.DEBUG)
    latest = {'view': None, 'n': 0}
    started = V.VEvent(s)
    missed = []

    class P(htf.plugs.BasePlug):
      pass

    def view_has(step, view):
      rec = view['test_record']
      logs_ = [l['message'] for l in rec['log_records']]
      rp = view.get('running_phase_state') or {}
      if step.startswith('log-'):
        return ('marker %s' % step) in logs_
      if step == 'measure':
        return (rp.get('measurements') or {}).get('m', {}).get('measured_value') == 7
      if step == 'measure-pair':    # two updates back to back: the second finds the first still pending
        ms_ = rp.get('measurements') or {}
        return ms_.get('m2', {}).get('measured_value') == 1 and ms_.get('m3', {}).get('measured_value') == 2
      if step == 'measure-override':       # an already set value is set again
        return (rp.get('measurements') or {}).get('m', {}).get('measured_value') == 8
      if step in ('measure-dim-override', 'measure-dim-after-override', 'measure-dim-after-readback'):   # a coordinate written before is written again, then new ones
        want = [[1, 11], [2, 20], [3, 30], [4, 40]] + ([[5, 50]] if step != 'measure-dim-override' else []) + (
            [[6, 60]] if step == 'measure-dim-after-readback' else [])
        got = (rp.get('measurements') or {}).get('d', {}).get('measured_value')
        return got is not None and [list(x) for x in got] == want
      if step == 'measure-dim-pair':
        got = (rp.get('measurements') or {}).get('d', {}).get('measured_value')
        return got is not None and [list(x) for x in got] == [[1, 10], [2, 20], [3, 30], [4, 40]]
      if step.startswith('measure-dim'):
        want = [[1, 10]] if step == 'measure-dim' else [[1, 10], [2, 20]]
        got = (rp.get('measurements') or {}).get('d', {}).get('measured_value')
        return got is not None and [list(x) for x in got] == want
      raise ValueError(step)

    @htf.plug(p=P)
    @htf.measures(htf.Measurement('m'), htf.Measurement('m2'), htf.Measurement('m3'), htf.Measurement('d').with_dimensions('x'))
    def body(test, p):
      started.set()
      s.sleep(1.0)
      for step in ORDERED_STEPS:
        if step == 'log-info':
          test.logger.info('marker %s', step)
        elif step == 'log-framework':
          logging.getLogger('openhtf.core.somewhere').info('marker %s', step)
        elif step == 'log-plug':
          p.logger.warning('marker %s', step)
        elif step == 'measure':
          test.measurements.m = 7
        elif step == 'measure-dim':
          test.measurements.d[1] = 10
        elif step == 'measure-dim-2':
          test.measurements.d[2] = 20
        elif step == 'measure-pair':
          test.measurements.m2 = 1
          test.measurements.m3 = 2
        elif step == 'measure-dim-pair':
          test.measurements.d[3] = 30
          test.measurements.d[4] = 40
        elif step == 'measure-override':
          test.measurements.m = 8
        elif step == 'measure-dim-override':
          test.measurements.d[1] = 11
        elif step == 'measure-dim-after-override':
          test.measurements.d[5] = 50
        elif step == 'measure-dim-after-readback':
          # the phase keeps the handle of its measurement, reads the measurement back through the read API, and goes on
          # writing through the handle (what a monitor thread does for the whole phase)
          handle = test.measurements.d
          test.get_measurement('d')
          handle[6] = 60
        s.sleep(1.0)       # quiescence: the watcher runs until it waits on a fresh event
        view = latest['view']
        if view is None or not view_has(step, view):
          missed.append(step)

    test = htf.Test(body)

    def watcher():
      started.wait()
      state = test.state
      while state is not None:
        snap, ev = state.asdict_with_event()
        latest['view'] = data.convert_to_base_types(snap)
        latest['n'] += 1
        if snap['status'] == 'COMPLETED' or getattr(snap['status'], 'name', None) == 'COMPLETED':
          return
        ev.wait()

    w = _spawn(watcher, 'watcher0')
    test.execute(test_start=lambda: 'dut')
    started.set()
    w.join()
    return missed, latest['n']

  return case


def check_ordered(case):
  """case = {'ordered': 1, 'plan': {k: choice}}"""
  import logging  # pylint: disable=g-import-not-at-top
  r = CaseResult()
  vmode.setup()
  if not _ORD['ready']:
    V.install_proxies([logging])   # record handlers created inside the run get scheduler-aware locks
    from openhtf.core import test_record, test_state, measurements  # pylint: disable=g-import-not-at-top
    from openhtf.util import logs  # pylint: disable=g-import-not-at-top
    V.monitor_lines(V.code_objects_of(logs.RecordHandler, test_record.TestRecord.add_log_record, test_state.PhaseState, test_state.TestState.notify_update
                                      if hasattr(test_state.TestState, 'notify_update') else test_state.TestState._asdict,
                                      measurements.Measurement, measurements.MeasuredValue))
    _ORD['ready'] = True
  plan = {int(k): v for k, v in (case.get('plan') or {}).items()}
  from openhtf.util import logs as _logs  # pylint: disable=g-import-not-at-top

  def main(s):
    with V.module_locks(_logs):
      return ordered_case()(s)

  level = logging.getLogger('openhtf').level
  try:
    s, res, exc = vmode.run(main, plan=plan, time_limit=1e6, watchdog_s=20.0)
  finally:
    logging.getLogger('openhtf').setLevel(level)
  if s.failure is not None:
    if s.failure[0] == 'deadlock':
      r.bad('C18/ordered/watcher-blocked-forever', '%s plan=%r' % (s.failure[1][:500], case.get('plan')))
      return r, s
    raise SchedFailure('%s: %s' % (s.failure[0], s.failure[1][:2000]))
  if exc is not None:
    r.bad('C18/ordered/raised/%s' % type(exc).__name__, '%r plan=%r' % (exc, case.get('plan')))
    return r, s
  missed, n_snaps = res
  for step in missed:
    r.bad('C18/ordered/change-not-followed-by-notification/%s' % step,
          'plan=%r: after %s returned and every other thread had run until it blocked, the snapshot-then-wait watcher (%d snapshots) '
          'still held a view without the change' % (case.get('plan'), step, n_snaps))
    break
  r.nontrivial = bool(s.effective_preemptions)
  r.classes = ['C:ordered', 'preemptions:%d' % min(len(s.effective_preemptions), 3)]
  return r, s


def sanity_single_thread():
  """Each mutating API sets a previously obtained event (real threads, no scheduler). Returns [(sig, detail)]."""
  out = []
  htf = ohtf.reset_case()
  import logging  # pylint: disable=g-import-not-at-top
  logging.getLogger('openhtf').setLevel(logging.DEBUG)
  from openhtf.plugs import user_input  # pylint: disable=g-import-not-at-top
  holder = {}

  def expect(state, what, fn):
    _, ev = state.asdict_with_event()
    fn()
    if not ev.is_set():
      out.append(('C18/sanity/no-notification/%s' % what, '%s did not set a previously obtained event' % what))

  @htf.measures(htf.Measurement('m'), htf.Measurement('d').with_dimensions('x'))
  @htf.plug(ui=user_input.UserInput)
  def ph(test, ui):
    state = holder['test'].state
    expect(state, 'measurement-set', lambda: setattr(test.measurements, 'm', 1))
    expect(state, 'measurement-override', lambda: setattr(test.measurements, 'm', 2))
    expect(state, 'dimensioned-set', lambda: test.measurements.d.__setitem__(1, 2))
    expect(state, 'log', lambda: test.logger.info('hello'))
    expect(state, 'attach', lambda: (test.attach('a', b'x'), test.notify_update()))
    expect(ui, 'prompt-start', lambda: holder.__setitem__('pid', ui.start_prompt('q')))
    expect(ui, 'prompt-respond', lambda: ui.respond(holder['pid'], 'a'))
    ui.start_prompt('q2')
    expect(ui, 'prompt-remove', ui.remove_prompt)
    _, holder['phase_exit_ev'] = state.asdict_with_event()

  def ph2(test):
    state = holder['test'].state
    if not holder['phase_exit_ev'].is_set():
      out.append(('C18/sanity/no-notification/phase-transition', 'phase exit/enter did not set the event'))
    _, holder['final_ev'] = state.asdict_with_event()

  t = htf.Test(ph, ph2)
  holder['test'] = t
  t.execute()
  if not holder.get('final_ev') or not holder['final_ev'].is_set():
    out.append(('C18/sanity/no-notification/finalize', 'test completion did not set the event'))
  return out


# ------------------------------------------------------------------ runner interface
CFGS = [
    {'subject': 'mixin', 'watchers': 1, 'updaters': 1, 'updates': 1},
    {'subject': 'mixin', 'watchers': 1, 'updaters': 1, 'updates': 2},
    {'subject': 'mixin', 'watchers': 2, 'updaters': 1, 'updates': 1},
    {'subject': 'mixin', 'watchers': 1, 'updaters': 2, 'updates': 1},
    {'subject': 'mixin', 'watchers': 2, 'updaters': 2, 'updates': 2},
    {'subject': 'user_input', 'watchers': 1, 'updaters': 1, 'updates': 2},
    {'subject': 'user_input', 'watchers': 2, 'updaters': 2, 'updates': 1},
    {'subject': 'plug_manager', 'watchers': 1, 'updaters': 1, 'updates': 2},
    {'subject': 'plug_manager', 'watchers': 2, 'updaters': 1, 'updates': 1},
]


def baseline_points(cfg):
  s, res, exc = run_protocol(cfg)
  if s.failure or exc:
    raise SchedFailure('baseline failed: %r %r' % (s.failure, exc))
  return s.k


def setup_lines():
  vmode.setup()
  import openhtf.util as util  # pylint: disable=g-import-not-at-top
  from openhtf.plugs import user_input  # pylint: disable=g-import-not-at-top
  import openhtf.plugs as plugs_  # pylint: disable=g-import-not-at-top
  V.monitor_lines(V.code_objects_of(util.SubscribableStateMixin, user_input.UserInput, plugs_.PlugManager.wait_for_plug_update) +
                  vmode.executor_code_objects())


def plan(tier, seed):
  jobs = [{'kind': 'sanity', 'name': 'sanity'}]
  q = tier == 'quick'
  for ci, cfg in enumerate(CFGS):
    jobs.append({'kind': 'enum', 'name': 'b1.%d' % ci, 'cfg': cfg, 'bound': 1, 'shard': 0, 'nshards': 1, 'complete': True})
  # bound 2: complete for the 1x1 configurations in thorough, seed-selected shards in quick
  for ci in (0, 1, 5, 7):
    nsh = 64 if q else 16
    which = [(seed * 4 + j) % nsh for j in range(4)] if q else range(nsh)
    for sh in which:
      jobs.append({'kind': 'enum', 'name': 'b2.%d.%d' % (ci, sh), 'cfg': CFGS[ci], 'bound': 2, 'shard': sh, 'nshards': nsh, 'complete': not q})
  nsh = 8
  for sh in range(nsh):
    jobs.append({'kind': 'ordered', 'name': 'ordered%d' % sh, 'shard': sh, 'nshards': nsh, 'stride': 1, 'offset': 0})
  for i in range(8):
    jobs.append({'kind': 'hypA', 'name': 'hypA%d' % i, 'hseed': seed * 1000 + i, 'n': 150 if q else 4000})
  for i in range(8):
    jobs.append({'kind': 'hypB', 'name': 'hypB%d' % i, 'hseed': seed * 1000 + 50 + i, 'n': 60 if q else 1500, 'sweeps': 1 if q else 12})
  return jobs


@st.composite
def protocol_cases(draw):
  cfg = draw(st.sampled_from(CFGS))
  if draw(st.booleans()):
    n = draw(st.integers(1, 4))
    plan_ = {str(draw(st.integers(0, 160))): draw(st.integers(0, 3)) for _ in range(n)}
    return {'cfg': cfg, 'plan': plan_, 'random': None}
  return {'cfg': cfg, 'plan': None, 'random': [draw(st.integers(0, 10**6)), draw(st.sampled_from([0.05, 0.15, 0.4]))]}


@st.composite
def whole_cases(draw):
  prog = draw(progs.programs(strict=True, max_nodes=5, maxdepth=2, with_test_start=False))
  for ph in progs.all_phases(prog):
    ph.pop('monitored', None)      # monitored bodies wait in real time for their monitor's samples: not under the scheduler
  if draw(st.booleans()):
    n = draw(st.integers(1, 3))
    plan_ = {str(draw(st.integers(0, 900))): draw(st.integers(0, 3)) for _ in range(n)}
    return {'prog': prog, 'watchers': draw(st.integers(1, 2)), 'plan': plan_, 'random': None}
  return {'prog': prog, 'watchers': draw(st.integers(1, 2)), 'plan': None,
          'random': [draw(st.integers(0, 10**6)), draw(st.sampled_from([0.02, 0.1, 0.3]))]}


def run_job(job, acct):
  known = set(job.get('known', ()))
  if job['kind'] == '_regress':
    from vf import runner  # pylint: disable=g-import-not-at-top
    runner.run_regress(sys.modules[__name__], job, acct)
    return
  if job['kind'] == 'sanity':
    for sig, detail in sanity_single_thread():
      (acct.known if sig in known else acct.violation)(sig, {'sanity': 1}, detail)
    acct.case({'sanity': 'single-thread notifications'}, False, ['sanity'])
    return
  setup_lines()
  if job['kind'] == 'enum':
    cfg = job['cfg']
    n = baseline_points(cfg)
    count = 0
    for plan_ in enum_plans(n + 6, job['bound'], job['shard'], job['nshards']):
      case = {'cfg': cfg, 'plan': {str(k): v for k, v in plan_.items()}, 'random': None}
      r = check_protocol(case)
      count += 1
      acct.case(case, r.nontrivial, r.classes + ['enum-bound%d' % job['bound']])
      for sig, detail in r.violations:
        (acct.known if sig in known else acct.violation)(sig, case, detail)
    if job['complete'] and job['shard'] == 0:
      acct.exhaustive_parts.append('protocol %s w%du%dx%d: all schedules with exactly %d preemption(s) over %d yield points' % (
          cfg['subject'], cfg['watchers'], cfg['updaters'], cfg['updates'], job['bound'], n + 6))
  elif job['kind'] == 'ordered':
    r0, s0 = check_ordered({'ordered': 1, 'plan': {}})
    for sig, detail in r0.violations:
      (acct.known if sig in known else acct.violation)(sig, {'ordered': 1, 'plan': {}}, detail)
    i = 0
    for k in range(job['offset'], s0.k + 2, job['stride']):
      for c in (0, 1):
        i += 1
        if i % job['nshards'] != job['shard']:
          continue
        case = {'ordered': 1, 'plan': {str(k): c}}
        r, _ = check_ordered(case)
        acct.case(case, r.nontrivial, r.classes)
        for sig, detail in r.violations:
          (acct.known if sig in known else acct.violation)(sig, case, detail)
    if job['shard'] == 0 and job['stride'] == 1:
      acct.exhaustive_parts.append('ordered updates: every single preemption over %d yield points of a run with %d mutation steps' % (s0.k + 2, len(ORDERED_STEPS)))
  elif job['kind'] == 'hypA':
    hyp.search(acct, protocol_cases(), check_protocol, seed=job['hseed'], max_examples=job['n'], known=known)
  elif job['kind'] == 'hypB':
    points = []

    def chk(case):
      r, n = check_whole(case)
      points.append((n, case))
      return r

    hyp.search(acct, whole_cases(), chk, seed=job['hseed'], max_examples=job['n'], known=known)
    # all single preemptions of a few of the generated programs
    for n, case in points[:job['sweeps']]:
      for k in range(0, min(n, 1500)):
        c2 = dict(case, plan={str(k): 0}, random=None)
        r, _ = check_whole(c2)
        acct.case(c2, r.nontrivial, r.classes + ['sweep-bound1'])
        for sig, detail in r.violations:
          (acct.known if sig in known else acct.violation)(sig, c2, detail)


def replay(case):
  setup_lines()
  if 'sanity' in case:
    return sanity_single_thread()
  if 'ordered' in case:
    return check_ordered(case)[0].violations
  if 'cfg' in case:
    return check_protocol(case).violations
  return check_whole(case)[0].violations
