"""Child process of C19's CLI-option domain: one Test at the CLI verbosity given in the environment (see c19.check_verbosity)."""
import io, json, logging, os, sys
sys.argv = [sys.argv[0]]
sys.path.insert(0, os.environ.get('VERIF_REPO', '/repo'))
from openhtf.util import logs, console_output
logs.CLI_LOGGING_VERBOSITY = int(os.environ['VF_VERBOSITY'])    # what -v / -vv store; read once, by the first Test()
console_output.CLI_QUIET = os.environ['VF_QUIET'] == '1'
import openhtf as htf
real_stdout, sys.stdout = sys.stdout, io.StringIO()
LEVELS = [10, 15, 20, 25, 30, 40, 50]
box = {}

class P(htf.plugs.BasePlug):
  def poke(self, lv):
    self.logger.log(lv, 'plug message at level %d', lv)

@htf.PhaseOptions(requires_state=True)
def grab(state):
  box['state_logger'] = state.state_logger       # = logs.get_record_logger_for(uid)

@htf.plug(p=P)
def ph(test, p):
  for lv in LEVELS:
    test.logger.log(lv, 'phase message at level %d', lv)
    p.poke(lv)
    box['state_logger'].log(lv, 'state message at level %d', lv)
    logging.getLogger('openhtf.core.vf_probe').log(lv, 'framework message at level %d', lv)

recs = []
t = htf.Test(grab, ph)
t.add_output_callbacks(recs.append)
t.execute()
sys.stdout = real_stdout
rec = recs[-1]

def kind(name):
  if 'vf_probe' in name:
    return 'vf_probe'
  if '.plug.' in name:
    return 'plug'
  if '.phase.' in name:
    return 'phase'
  return 'state'

print(json.dumps({'logs': [[l.level, kind(l.logger_name), l.message] for l in rec.log_records], 'outcome': rec.outcome.name}))
