"""C20 - configuration precedence (flag > loaded > default), consistent views, exact restore: model-based history check."""
import argparse
import copy
import io
import json
import os
import sys
import tempfile

from hypothesis import strategies as st

from vf import hyp
from vf import ohtf
from vf.hyp import CaseResult

ID = 'C20'
LEVEL = 'exploration'
RULE = ('Case = a fresh _Configuration() (argv neutralised; optionally constructed with a --config-file flag pointing at a '
        'generated YAML/JSON file and --config-value flags) + an operation history (<=40 ops) over a key universe of 5 valid keys '
        '(declared with default / without / declared later / never declared / flag-provided) + invalid names: declare, redeclare, '
        'load(**kw), load_from_dict, load_from_file (JSON/YAML text via StringIO, malformed text, non-dict), each with _override '
        'and _allow_undeclared in {T,F}, load_flag_values(Namespace), reset, attribute assignment, save_and_restore (plain / with '
        'inline values; wrapped function loads, resets, nests another save_and_restore, returns or raises Exception / KeyboardInterrupt / SystemExit / ThreadTerminationError).  Oracle = three-dict reference '
        'model (declarations, loaded, flags): after EVERY op, for every key: conf[k], getattr(conf,k), k in conf, holder.value and '
        '_asdict().get(k) agree with the model (value or the specific exception); rejected ops raise the documented exception; '
        'save_and_restore restores exactly the loaded dict present at call time also on exception; (second domain, on the process-wide CONF) histories of load / reset / save_and_restore scopes with executions of ONE Test object in between: metadata[\'config\'] of every record equals the configuration at that moment; reset keeps flags and re-loads '
        'the config file.  Non-trivial = a read of a key having >=2 of {flag, loaded, default}, or a restore after an inner load, or '
        'a reset with a config file; distinct by canonical case.')
ASSUMPTIONS = ['--config-value strings are chosen from a table whose YAML parse is known, so the model does not depend on yaml.']

# 'reset' and 'load' are valid key names (lowercase first letter) that are also names of methods of the configuration object
RESERVED = ['reset', 'load']
KEYS = ['ka', 'kb', 'kc', 'kd', 'ke'] + RESERVED
BAD_KEYS = ['Bad', '_x', '9k']
FLAG_TABLE = {'5': 5, 'abc': 'abc', 'true': True, '[1, 2]': [1, 2], 'null': None, '{a: 1}': {'a': 1}, '1.5': 1.5, 'x=y': 'x=y'}
NOT_SET = '<<NOT_SET>>'


class Inner(Exception):
  pass


class Model(object):

  def __init__(self, file_values, flags):
    self.decl = {}
    self.flags = {}
    for k, v in flags:
      self.flags.setdefault(k, v)
    self.file_values = file_values
    self.loaded = dict(file_values) if file_values is not None else {}

  def load(self, d, override=True, allow_undeclared=False):
    for k, v in d.items():
      if k not in self.decl and not allow_undeclared:
        continue
      if k in self.loaded and not override:
        continue
      self.loaded[k] = v

  def read(self, k):
    """('value', v) | ('exc', name)."""
    if k not in self.decl:
      return ('exc', 'UndeclaredKeyError')
    if k in self.flags:
      return ('value', self.flags[k])
    if k in self.loaded:
      return ('value', self.loaded[k])
    if self.decl[k] != NOT_SET:
      return ('value', self.decl[k])
    return ('exc', 'UnsetKeyError')

  def sources(self, k):
    return (k in self.flags) + (k in self.loaded) + (k in self.decl and self.decl[k] != NOT_SET)


def call(f, *a, **kw):
  try:
    return ('value', f(*a, **kw))
  except Exception as e:  # pylint: disable=broad-except
    return ('exc', type(e).__name__)


class _Exotic(object):
  """Default values whose type has its own idea of equality (they stand for unittest.mock.ANY, a numpy calibration table, an
  object that refuses comparison with foreign types).  Compared by identity in the oracle; copying yields the same object."""

  def __init__(self, tag):
    self.tag = tag

  def __deepcopy__(self, memo):
    return self

  def __copy__(self):
    return self

  def __repr__(self):
    return '<exotic %s>' % self.tag

  __hash__ = object.__hash__

  def __eq__(self, other):
    if self.tag == 'eq-all':
      return True
    if self.tag == 'eq-raises':
      raise TypeError('cannot compare a calibration handle with %s' % type(other).__name__)
    return _NoTruth()

  def __ne__(self, other):
    if self.tag == 'eq-all':
      return False
    if self.tag == 'eq-raises':
      raise TypeError('cannot compare a calibration handle with %s' % type(other).__name__)
    return _NoTruth()


class _NoTruth(object):
  def __bool__(self):
    raise ValueError('The truth value of an array with more than one element is ambiguous')


EXOTIC = {t: _Exotic(t) for t in ('eq-all', 'eq-array', 'eq-raises')}


def dec_default(v):
  return EXOTIC[v['__exotic__']] if isinstance(v, dict) and '__exotic__' in v else v


def same(a, b):
  if isinstance(b, dict) and '__exotic__' in b:
    return a is EXOTIC[b['__exotic__']]
  if isinstance(a, _Exotic) or isinstance(b, _Exotic):
    return a is b
  return type(a) == type(b) and a == b


class Runner(object):

  def __init__(self, case, r):
    self.case = case
    self.r = r
    self.holders = {}
    self.flags_hit = {'multi_source_read': False, 'restore_after_inner_load': False, 'reset_with_file': False}

  def bad(self, sig, detail):
    self.r.bad(sig, detail)

  def compare_all(self, conf, model, when):
    snap = call(conf._asdict)  # pylint: disable=protected-access
    if snap[0] != 'value':
      self.bad('C20/asdict-raised', '%s: %r' % (when, snap))
      return
    snap = snap[1]
    for k in KEYS + BAD_KEYS[:1] + ['zz']:      # 'zz' is never declared, but loads may carry it
      exp = model.read(k)
      if model.sources(k) >= 2:
        self.flags_hit['multi_source_read'] = True
      got_item = call(conf.__getitem__, k)
      got_attr = call(getattr, conf, k)
      exp_attr = exp if k[0].islower() else ('exc', 'AttributeError')
      if k in RESERVED and k not in model.decl:
        got_attr = exp_attr      # not a configuration key: the attribute is the method of that name
      for name, got, want in (('item', got_item, exp), ('attr', got_attr, exp_attr)):
        if got[0] != want[0] or (got[0] == 'value' and not same(got[1], want[1])) or (got[0] == 'exc' and got[1] != want[1]):
          src = 'flag' if k in model.flags else 'loaded' if k in model.loaded else 'default'
          self.bad('C20/read-%s/%s-vs-%s' % (name, got[0] if got[0] == 'exc' else 'value', want[1] if want[0] == 'exc' else src),
                   '%s: %s access of %r gave %r, model %r (flags=%r loaded=%r decl=%r)' % (when, name, k, got, want, model.flags, model.loaded, model.decl))
      # a fourth way of reading: a callable whose positional argument is named after the key (inject_positional_args);
      # a key that cannot be read is not injected, the call then lacks its argument
      if k.isidentifier():
        try:
          injected = call(conf.inject_positional_args(eval('lambda %s: %s' % (k, k))))      # pylint: disable=eval-used
        except SyntaxError:
          injected = None
        if injected is not None:
          want_inj = exp if exp[0] == 'value' else ('exc', 'TypeError')
          if injected[0] != want_inj[0] or (injected[0] == 'value' and not same(injected[1], want_inj[1])) or (injected[0] == 'exc' and injected[1] != want_inj[1]):
            self.bad('C20/inject-positional-args/%s' % ('value-for-unreadable-key' if want_inj[0] == 'exc' and injected[0] == 'value' else 'disagrees'),
                     '%s: f(%s) called through inject_positional_args gave %r, the other views give %r' % (when, k, injected, exp))
      has = exp[0] == 'value'
      got_in = call(conf.__contains__, k)
      if got_in != ('value', has):
        self.bad('C20/contains', '%s: %r in conf gave %r, model %r' % (when, k, got_in, has))
      if k in model.decl:
        if has:
          if k not in snap or not same(snap[k], exp[1]):
            self.bad('C20/asdict-disagrees', '%s: _asdict()[%r]=%r, model %r' % (when, k, snap.get(k, '<missing>'), exp[1]))
        elif k in snap:
          self.bad('C20/asdict-disagrees', '%s: _asdict() has %r=%r but the key is unset' % (when, k, snap[k]))
        h = self.holders.get(k)
        if h is not None:
          got_h = call(lambda: h.value)
          if got_h[0] != exp[0] or (exp[0] == 'value' and not same(got_h[1], exp[1])) or (exp[0] == 'exc' and got_h[1] != exp[1]):
            self.bad('C20/holder-disagrees', '%s: holder(%r).value gave %r, model %r' % (when, k, got_h, exp))

  def run_ops(self, conf, model, ops, depth=0):
    for i, op in enumerate(ops):
      kind = op[0]
      when = 'depth %d op %d %r' % (depth, i, op)
      if kind == 'declare':
        k, default = op[1], op[2]
        exp = None
        if not (k and k[0].islower()):
          exp = 'InvalidKeyError'
        elif k in model.decl:
          exp = 'KeyAlreadyDeclaredError'
        kw = {} if default == NOT_SET else {'default_value': copy.deepcopy(dec_default(default))}
        got = call(conf.declare, k, **kw)
        if exp is None and k in RESERVED and got == ('exc', 'InvalidKeyError'):
          # refusing a name that attribute access could never reach is one way of keeping the views in agreement; if it
          # is accepted instead, compare_all demands that all views agree on it
          self.flags_hit['reserved_name'] = True
          continue
        if exp:
          if got != ('exc', exp):
            self.bad('C20/declare-not-rejected/%s' % exp, '%s: got %r' % (when, got))
        else:
          if got[0] != 'value':
            self.bad('C20/declare-raised', '%s: %r' % (when, got))
          else:
            model.decl[k] = default
            self.holders[k] = got[1]
      elif kind in ('load', 'load_from_dict', 'load_from_file'):
        d, override, allow = op[1], op[2], op[3]
        d = {k: copy.deepcopy(v) for k, v in d}
        if kind == 'load':
          got = call(conf.load, _override=override, _allow_undeclared=allow, **d)
        elif kind == 'load_from_dict':
          got = call(conf.load_from_dict, d, _override=override, _allow_undeclared=allow)
        else:
          got = call(conf.load_from_file, io.StringIO(json.dumps(d)), _override=override, _allow_undeclared=allow)
        if got[0] != 'value':
          self.bad('C20/load-raised', '%s: %r' % (when, got))
        else:
          model.load(d, override, allow)
      elif kind == 'load_bad_file':
        got = call(conf.load_from_file, io.StringIO(op[1]))
        if got != ('exc', 'ConfigurationInvalidError'):
          self.bad('C20/bad-file-accepted', '%s: %r' % (when, got))
      elif kind == 'flags':
        ns = argparse.Namespace(config_value=['%s=%s' % (k, v) for k, v in op[1]], config_file=None)
        got = call(conf.load_flag_values, ns)
        if got[0] != 'value':
          self.bad('C20/flags-raised', '%s: %r' % (when, got))
        for k, v in op[1]:
          model.flags.setdefault(k, FLAG_TABLE[v])
      elif kind == 'reset':
        got = call(conf.reset)
        if model.file_values is not None:
          self.flags_hit['reset_with_file'] = True
        if got[0] != 'value':
          self.bad('C20/reset-raised/%s' % got[1], '%s: reset() raised %s (config file flag %s)' % (when, got[1], 'present' if model.file_values is not None else 'absent'))
          # keep going with what the documentation promises
        model.loaded = dict(model.file_values) if model.file_values is not None else {}
        if got[0] != 'value':
          return 'stop'
      elif kind == 'setattr':
        got = call(setattr, conf, op[1], op[2])
        if got != ('exc', 'AttributeError'):
          self.bad('C20/setattr-accepted', '%s: %r' % (when, got))
      elif kind == 'save_restore':
        inline, inner, raises, paren = dict(op[1]), op[2], op[3], op[4]
        saved = dict(model.loaded)
        state = {'ret': None}
        # how the wrapped function ends: normally, with an ordinary exception, or with one of the BaseExceptions a phase
        # body really ends with (Ctrl-C, sys.exit(), the kill of a timed-out/aborted phase thread)
        raises = 'Inner' if raises is True else raises
        if raises == 'ThreadTerminationError':
          from openhtf.util import threads as _threads  # pylint: disable=g-import-not-at-top
          exc_type = _threads.ThreadTerminationError
        else:
          exc_type = {'Inner': Inner, 'KeyboardInterrupt': KeyboardInterrupt, 'SystemExit': SystemExit}.get(raises)
        if raises:
          self.flags_hit['sar_raises_' + raises] = True

        def fn(token):
          # inside: inline values have been loaded (declared ones only, overriding)
          self.compare_all(conf, model, when + ' [inside]')
          res = self.run_ops(conf, model, inner, depth + 1)
          if raises:
            raise exc_type('inner')
          return token

        model_inline = {k: v for k, v in inline.items()}
        if inline or paren:
          wrapped = conf.save_and_restore(**{k: copy.deepcopy(v) for k, v in inline.items()})(fn)
        else:
          wrapped = conf.save_and_restore(fn)
        model.load(model_inline, True, False)
        try:
          got = ('value', wrapped('tok'))
        except BaseException as e:  # pylint: disable=broad-except
          got = ('exc', type(e).__name__)
        if inner:
          self.flags_hit['restore_after_inner_load'] = True
        model.loaded = saved
        want = ('exc', raises) if raises else ('value', 'tok')
        if got != want:
          self.bad('C20/save-and-restore-result', '%s: wrapper gave %r, expected %r' % (when, got, want))
      else:
        raise ValueError(kind)
      self.compare_all(conf, model, when)
    return None


def check(case):
  r = CaseResult()
  ohtf.load()
  from openhtf.util import configuration  # pylint: disable=g-import-not-at-top
  argv = [sys.argv[0]]
  tmp = None
  file_values = None
  if case['file'] is not None:
    file_values = {k: v for k, v in case['file']}
    tmp = tempfile.NamedTemporaryFile('w', suffix='.yaml', delete=False)
    json.dump(file_values, tmp)
    tmp.close()
    argv += ['--config-file', tmp.name]
  for k, v in case['flags']:
    argv += ['--config-value', '%s=%s' % (k, v)]
  old_argv = sys.argv
  sys.argv = argv
  try:
    made = call(configuration._Configuration)  # pylint: disable=protected-access
  finally:
    sys.argv = old_argv
  run = Runner(case, r)
  try:
    if made[0] != 'value':
      r.bad('C20/constructor-raised', repr(made))
      return r
    conf = made[1]
    model = Model(file_values, [(k, FLAG_TABLE[v]) for k, v in case['flags']])
    run.compare_all(conf, model, 'initially')
    run.run_ops(conf, model, case['ops'])
  finally:
    if tmp is not None:
      try:
        f = getattr(made[1], '_flags', None) if made[0] == 'value' else None
        if f is not None and f.config_file is not None:
          f.config_file.close()
      except Exception:  # pylint: disable=broad-except
        pass
      os.unlink(tmp.name)
  r.nontrivial = any(v for k, v in run.flags_hit.items() if not k.startswith('sar_raises_') and k != 'reserved_name')
  r.classes = [k for k, v in run.flags_hit.items() if v] + ['ops:%d' % (len(case['ops']) // 10 * 10)] + (['file'] if case['file'] is not None else []) + (
      ['ctor-flags'] if case['flags'] else [])
  return r


# ------------------------------------------------------------------ the snapshot stored in test metadata (global CONF)
_SNAP = {'n': 0}


def _snap_phase(test):
  pass


def check_snapshot(case):
  """case = {'snap_ops': [op...]}; op = ['load', {key: value}] | ['reset'] | ['run'] | ['scope', {key: value}, [op...], raises].

  Works on the process-wide CONF that Test.execute() snapshots: three keys declared under a fresh prefix (a, c: no default;
  b: default 5), a history of loads / resets / save_and_restore scopes, and executions of ONE Test object in between.
  Oracle: metadata['config'] of each record, restricted to the three keys, equals the model (key present iff it has a
  value, with that value) and agrees with item access and `in`.
  """
  r = CaseResult()
  htf = ohtf.reset_case()
  from openhtf.util import configuration  # pylint: disable=g-import-not-at-top
  conf = configuration.CONF
  _SNAP['n'] += 1
  pre = 'vfsnap%d_%d_' % (os.getpid(), _SNAP['n'])
  keys = {'a': pre + 'a', 'b': pre + 'b', 'c': pre + 'c'}
  conf.declare(keys['a'])
  conf.declare(keys['b'], default_value=5)
  conf.declare(keys['c'])
  test = htf.Test(_snap_phase)
  got = []
  test.add_output_callbacks(got.append)
  state = {'runs': 0, 'unset_after_set': False}
  wants = []

  def expect(loaded):
    out = {}
    for short, full in keys.items():
      if short in loaded:
        out[full] = loaded[short]
      elif short == 'b':
        out[full] = 5
    return out

  def run_ops(ops_, loaded, ever):
    for op in ops_:
      if op[0] == 'load':
        conf.load(**{keys[k]: copy.deepcopy(v) for k, v in op[1].items()})
        loaded.update(op[1])
        ever.update(op[1])
      elif op[0] == 'reset':
        conf.reset()
        loaded.clear()
      elif op[0] == 'run':
        n0 = len(got)
        test.execute(test_start=lambda: 'dut')
        state['runs'] += 1
        if len(got) != n0 + 1:
          r.bad('C20/snapshot/no-record', 'run %d produced no record' % state['runs'])
          return
        snap = got[-1].metadata.get('config', {})
        mine = {k: v for k, v in snap.items() if k.startswith(pre)}
        want = expect(loaded)
        if any(k in ever and k not in loaded for k in ('a', 'c')):
          state['unset_after_set'] = True
        if mine != want:
          r.bad('C20/snapshot/metadata-config-disagrees', 'run %d: metadata config has %r, the configuration at that moment was %r (in conf: %r)' % (
              state['runs'], mine, want, {k: (k in conf) for k in keys.values()}))
          return
        for full in keys.values():
          if (full in conf) != (full in want):
            r.bad('C20/snapshot/contains-disagrees', '%r in conf is %r, model %r' % (full, full in conf, full in want))
        # a snapshot is of its own run: the records of earlier runs still show the configuration of *their* moment
        wants.append(want)
        for j, (rec_j, want_j) in enumerate(zip(got, wants)):
          mine_j = {k: v for k, v in rec_j.metadata.get('config', {}).items() if k.startswith(pre)}
          if mine_j != want_j:
            r.bad('C20/snapshot/earlier-record-changed-by-later-run', 'after run %d the record of run %d shows %r, the configuration when it ran was %r' % (
                state['runs'], j + 1, mine_j, want_j))
            return
      elif op[0] == 'scope':
        saved = dict(loaded)

        def inner():
          loaded.update(op[1])
          ever.update(op[1])
          run_ops(op[2], loaded, ever)
          if op[3]:
            raise Inner('scope')

        wrapped = conf.save_and_restore(**{keys[k]: copy.deepcopy(v) for k, v in op[1].items()})(inner)
        try:
          wrapped()
        except Inner:
          pass
        loaded.clear()
        loaded.update(saved)

  try:
    run_ops(case['snap_ops'], {}, {})
  finally:
    conf.reset()
  r.nontrivial = state['runs'] >= 2 and state['unset_after_set']
  r.classes = ['snapshot', 'runs:%d' % min(state['runs'], 4)] + (['unset-after-set'] if state['unset_after_set'] else [])
  return r


SNAP_VALS = st.one_of(st.integers(0, 9), st.sampled_from(['s', None, False, 1.5]), st.lists(st.integers(0, 3), max_size=2),
                      st.dictionaries(st.sampled_from(['x', 'y']), st.integers(0, 3), max_size=2))
SNAP_PAIRS = st.dictionaries(st.sampled_from(['a', 'b', 'c']), SNAP_VALS, max_size=3)


def snap_ops(depth):
  base = [st.tuples(st.just('load'), SNAP_PAIRS).map(list), st.just(['reset']), st.just(['run']), st.just(['run'])]
  if depth < 2:
    base.append(st.tuples(st.just('scope'), SNAP_PAIRS, st.lists(st.deferred(lambda: snap_ops(depth + 1)), max_size=4), st.booleans()).map(list))
  return st.one_of(*base)


SNAP_CASES = st.lists(snap_ops(0), min_size=2, max_size=12).map(lambda o: {'snap_ops': o})


# ------------------------------------------------------------------ generators
VALS = st.one_of(st.integers(-3, 9), st.sampled_from(['s', '', 'abc', None, True, False, 1.5]), st.lists(st.integers(0, 3), max_size=2),
                 st.dictionaries(st.sampled_from(['a', 'b']), st.integers(0, 3), max_size=2))
KEY = st.sampled_from(KEYS)
EXOTIC_VALS = st.sampled_from(sorted(EXOTIC)).map(lambda t: {'__exotic__': t})
RAISES = st.sampled_from([False, False, False, 'Inner', 'Inner', 'KeyboardInterrupt', 'SystemExit', 'ThreadTerminationError'])
PAIRS = st.lists(st.tuples(st.one_of(KEY, KEY, KEY, st.sampled_from(['zz'])), VALS).map(list), max_size=3, unique_by=lambda p: p[0])
FLAGPAIRS = st.lists(st.tuples(KEY, st.sampled_from(sorted(FLAG_TABLE))).map(list), max_size=2)


def ops(depth):
  base = [
      st.tuples(st.just('declare'), st.one_of(KEY, KEY, KEY, st.sampled_from(BAD_KEYS)), st.one_of(st.just(NOT_SET), VALS, VALS, VALS, EXOTIC_VALS)).map(list),
      st.tuples(st.sampled_from(['load', 'load_from_dict', 'load_from_file']), PAIRS, st.booleans(), st.booleans()).map(list),
      st.tuples(st.sampled_from(['load', 'load_from_dict']), PAIRS, st.just(True), st.just(False)).map(list),
      st.tuples(st.just('load_bad_file'), st.sampled_from(['{a: [', '[1, 2]', '5', '', 'a: b: c'])).map(list),
      st.tuples(st.just('flags'), FLAGPAIRS).map(list),
      st.just(['reset']),
      st.tuples(st.just('setattr'), KEY, VALS).map(list),
  ]
  if depth < 2:
    base.append(st.tuples(st.just('save_restore'), PAIRS, st.lists(st.deferred(lambda: ops(depth + 1)), max_size=4), RAISES, st.booleans()).map(list))
    base.append(st.tuples(st.just('save_restore'), PAIRS, st.lists(st.deferred(lambda: ops(depth + 1)), min_size=1, max_size=4), RAISES, st.booleans()).map(list))
  return st.one_of(*base)


@st.composite
def cases(draw):
  n = draw(st.integers(1, 40))
  file_ = draw(st.one_of(st.none(), st.none(), PAIRS))
  return {'file': file_, 'flags': draw(FLAGPAIRS), 'ops': draw(st.lists(ops(0), min_size=n, max_size=n))}


def plan(tier, seed):
  n = 400 if tier == 'quick' else 8000
  jobs = [{'kind': 'hyp', 'name': 'hyp%d' % i, 'hseed': seed * 1000 + i, 'n': n} for i in range(16)]
  for i in range(4):
    jobs.append({'kind': 'snap', 'name': 'snap%d' % i, 'hseed': seed * 1000 + 500 + i, 'n': 60 if tier == 'quick' else 1500})
  return jobs


def run_job(job, acct):
  known = set(job.get('known', ()))
  if job['kind'] == '_regress':
    from vf import runner  # pylint: disable=g-import-not-at-top
    runner.run_regress(sys.modules[__name__], job, acct)
    return
  if job['kind'] == 'snap':
    hyp.search(acct, SNAP_CASES, check_snapshot, seed=job['hseed'], max_examples=job['n'], known=known)
    return
  hyp.search(acct, cases(), check, seed=job['hseed'], max_examples=job['n'], known=known)


def replay(case):
  if 'snap_ops' in case:
    return check_snapshot(case).violations
  return check(case).violations
