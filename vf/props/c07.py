"""C07 - built-in validators accept exactly the values inside the declared limits.

Exhaustive boundary grid (every limit tuple of the grid x every bound, its float
neighbours and the special values) decided against independent exact-arithmetic
decision functions, plus Hypothesis-drawn limit tuples/probes.
"""
import copy
import itertools
import math
import re
from fractions import Fraction

from hypothesis import strategies as st

from vf import hyp
from vf.hyp import CaseResult

ID = 'C07'
LEVEL = 'exploration'
RULE = ('Validator specs = full product of a limit grid (in_range/all_in_range: 6^4 tuples of '
        '{None,-2.5,0,1,8,100} + typed numeric-string tuples; within_percent: expected x percent x '
        'marginal with exactly representable tolerance; equals/all_equals over numbers, strings with '
        'regex metacharacters, objects; matches_regex over a small grammar; pivot validators over '
        'row patterns).  Probes per spec = every limit, its nextafter neighbours, +-1, +-0.0, +-inf, '
        'NaN, None, +-10^30, bools, 5e-324.  Each (spec, probe) pair is one case, decided against a '
        'Fraction-based oracle; constructor consistency, with_args, ==, deepcopy compared on all '
        'probes.  Non-trivial = probe equals or is within one ulp of a limit, or is a special value '
        '(NaN, None, inf, -0.0, bool, huge int), or a constructor-rejection case; distinct by '
        'canonical JSON of (spec, probe).  Hypothesis part: arbitrary int/float limits and probes.  History part: sequences of '
        'validators built in one process with the SAME raw limits under different declared types (int / float / none, both orders): '
        'each must decide by its own declaration.  Probes include ints beyond the float range (+-10**400); == between a validator and its deepcopy / with_args() / rebuilt twin must not raise.')
ASSUMPTIONS = [
    'An exception raised by a probe (e.g. None into within_percent) counts as "not accepted", not as a violation.',
    'Limit tuples whose marginal limit lies beyond the *opposite* bound are outside the statement and are not generated.',
    'Python int/float comparison is exact; the oracle re-derives every decision with fractions.Fraction.',
]
EXHAUSTIVE_WHOLE = False

INF = float('inf')
NAN = float('nan')


# ------------------------------------------------------------------ value codec
def enc(v):
  if isinstance(v, bool) or v is None or isinstance(v, (int, str)):
    return v
  if isinstance(v, float):
    return {'f': v.hex()}
  if isinstance(v, tuple):
    return {'t': [enc(x) for x in v]}
  if isinstance(v, list):
    return [enc(x) for x in v]
  if isinstance(v, dict):
    return {'d': [[enc(k), enc(x)] for k, x in v.items()]}
  if isinstance(v, bytes):
    return {'b': v.decode('latin-1')}
  raise TypeError(v)


def dec(j):
  if isinstance(j, dict):
    if 'f' in j:
      return float.fromhex(j['f'])
    if 't' in j:
      return tuple(dec(x) for x in j['t'])
    if 'd' in j:
      return {dec(k): dec(x) for k, x in j['d']}
    if 'b' in j:
      return j['b'].encode('latin-1')
  if isinstance(j, list):
    return [dec(x) for x in j]
  return j


# ------------------------------------------------------------------ exact oracle helpers
def is_num(v):
  return isinstance(v, (int, float)) and not (isinstance(v, float) and v != v)


def key(x):
  if isinstance(x, float) and math.isinf(x):
    return (1 if x > 0 else -1, Fraction(0))
  return (0, Fraction(x))


def le(a, b):
  return key(a) <= key(b)


def conv(limit, typ):
  if limit is None:
    return None
  if typ == 'int':
    return int(limit)
  if typ == 'float':
    return float(limit)
  return limit


def oracle_range(v, lo, hi):
  if v is None or not is_num(v):
    return False
  return (lo is None or le(lo, v)) and (hi is None or le(v, hi))


def oracle_range_marginal(v, mlo, mhi):
  """For a *passing* numeric v."""
  return (mlo is not None and le(v, mlo)) or (mhi is not None and le(mhi, v))


def range_ctor_class(lo, hi, mlo, mhi):
  """'reject' if the statement lists the tuple as inconsistent, 'accept' if fully consistent, else None."""
  nums = lambda *xs: all(isinstance(x, (int, float)) for x in xs)
  if lo is None and hi is None:
    return 'reject'
  if lo is not None and hi is not None and nums(lo, hi) and lo > hi:
    return 'reject'
  if mlo is not None and lo is None:
    return 'reject'
  if mhi is not None and hi is None:
    return 'reject'
  if mlo is not None and nums(lo, mlo) and mlo < lo:
    return 'reject'
  if mhi is not None and nums(hi, mhi) and mhi > hi:
    return 'reject'
  if mlo is not None and mhi is not None and nums(mlo, mhi) and mlo > mhi:
    return 'reject'
  # not listed as inconsistent; fully consistent only if marginal limits are inside [lo, hi]
  if mlo is not None and hi is not None and nums(mlo, hi) and mlo > hi:
    return None
  if mhi is not None and lo is not None and nums(mhi, lo) and mhi < lo:
    return None
  return 'accept'


SPECIALS = [0.0, -0.0, INF, -INF, NAN, None, 10**30, -10**30, True, False, 5e-324,
            10**400, -10**400]     # ints beyond the float range are ints all the same


def probes_around(limits):
  out = []
  for l in limits:
    if l is None or not is_num(l) or (isinstance(l, float) and math.isinf(l)):
      continue
    f = float(l)
    out += [l, f, math.nextafter(f, INF), math.nextafter(f, -INF), l + 1, l - 1]
    if isinstance(l, float) and l == int(l):
      out.append(int(l))
  out += SPECIALS
  seen, res = set(), []
  for p in out:
    k = repr(p) + type(p).__name__
    if k not in seen:
      seen.add(k)
      res.append(p)
  return res


def probe_class(p, limits):
  if p is None:
    return 'none'
  if isinstance(p, bool):
    return 'bool'
  if isinstance(p, float):
    if p != p:
      return 'nan'
    if math.isinf(p):
      return 'inf'
    if p == 0 and math.copysign(1, p) < 0:
      return 'negzero'
  if isinstance(p, int) and abs(p) >= 10**30:
    return 'huge'
  if is_num(p):
    for l in limits:
      if l is None or not is_num(l) or (isinstance(l, float) and math.isinf(l)):
        continue
      if key(p) == key(l):
        return 'at-limit'
      f = float(l)
      if float(p) in (math.nextafter(f, INF), math.nextafter(f, -INF)):
        return 'ulp-of-limit'
  if isinstance(p, str):
    return 'str'
  return 'interior'


NONTRIVIAL_CLASSES = {'none', 'bool', 'nan', 'inf', 'negzero', 'huge', 'at-limit', 'ulp-of-limit'}


def safe_str(v):
  try:
    return str(v)
  except Exception as e:  # pylint: disable=broad-except
    return 'str() raises ' + type(e).__name__


def call_bool(f, *a):
  try:
    return bool(f(*a)), None
  except Exception as e:  # pylint: disable=broad-except
    return False, type(e).__name__


# ------------------------------------------------------------------ spec construction (code under test)
def _typ(t):
  return {'int': int, 'float': float, 'str': str, None: None}[t]


def build(spec):
  from openhtf.util import validators as V  # pylint: disable=g-import-not-at-top
  k = spec['k']
  a = [dec(x) for x in spec.get('a', [])]
  if k == 'in_range':
    kw = dict(minimum=a[0], maximum=a[1], marginal_minimum=a[2], marginal_maximum=a[3])
    if spec.get('t'):
      kw['type'] = _typ(spec['t'])
    return V.in_range(**kw)
  if k == 'in_range_with_args':
    names = ['lo', 'hi', 'mlo', 'mhi']
    style = spec.get('style', '{')
    fmt = (lambda n: '{%s}' % n) if style == '{' else (lambda n: '%%(%s)s' % n)
    tmpl = [None if x is None else fmt(n) for n, x in zip(names, a)]
    v = V.in_range(tmpl[0], tmpl[1], tmpl[2], tmpl[3], type=_typ(spec['t']))
    return v.with_args(**{n: x for n, x in zip(names, a) if x is not None})
  if k == 'all_in_range':
    return V.AllInRangeValidator(a[0], a[1], a[2], a[3])
  if k == 'within_percent':
    if len(a) == 2:
      return V.within_percent(a[0], a[1])
    return V.WithinPercent(a[0], a[1], a[2])
  if k == 'equals':
    if spec.get('t'):
      return V.equals(a[0], type=_typ(spec['t']))
    return V.equals(a[0])
  if k == 'all_equals':
    return V.all_equals(a[0])
  if k == 'matches_regex':
    if spec.get('flags'):
      # a pattern object that carries flags: handed to the factory, or to the public class next to its source text
      compiled = re.compile(a[0], _re_flags(spec['flags']))
      return V.matches_regex(compiled) if spec.get('via') == 'factory' else V.RegexMatcher(a[0], compiled)
    return V.matches_regex(a[0])
  if k in ('pivot', 'cpivot'):
    sub = build(spec['sub'])
    return (V.dimension_pivot_validate if k == 'pivot' else V.consistent_end_dimension_pivot_validate)(sub)
  raise ValueError(k)


# ------------------------------------------------------------------ per-spec oracle
def expected_accept(spec, p):
  """Returns (accept, marginal_or_None).  marginal None = unspecified for this probe."""
  k = spec['k']
  a = [dec(x) for x in spec.get('a', [])]
  if k in ('in_range', 'in_range_with_args'):
    t = spec.get('t')
    lo, hi, mlo, mhi = [conv(x, t) for x in a]
    acc = oracle_range(p, lo, hi)
    return acc, (oracle_range_marginal(p, mlo, mhi) if acc else None)
  if k == 'all_in_range':
    lo, hi, mlo, mhi = a
    if not isinstance(p, list):
      return False, None
    acc = all(oracle_range(v, lo, hi) for v in p)
    return acc, (any(oracle_range_marginal(v, mlo, mhi) for v in p) if acc else None)
  if k == 'within_percent':
    e, pc = a[0], a[1]
    if p is None or not is_num(p):
      return False, None
    if isinstance(p, float) and math.isinf(p):
      return False, None
    tol = abs(Fraction(e) * Fraction(pc) / 100)
    acc = abs(Fraction(p) - Fraction(e)) <= tol
    return acc, None
  if k == 'equals':
    x = a[0]
    if isinstance(x, (int, float)):  # bool included: the code treats bools as numbers
      x = conv(x, spec.get('t'))
      return (p is not None and is_num(p) and key(p) == key(x)), None
    if isinstance(x, str):
      return (str(p) == x or str(p) == x + '\n'), None
    try:
      return bool(p == x), None
    except Exception:  # pylint: disable=broad-except
      return False, None
  if k == 'all_equals':
    x = a[0]
    if not isinstance(p, list):
      return None, None  # a non-list probe of a list validator: unspecified
    if isinstance(x, (int, float)):
      return all(v is not None and is_num(v) and key(v) == key(x) for v in p), None
    return all(type(v) == type(x) and v == x for v in p) if isinstance(x, str) else all(v == x for v in p), None
  if k == 'matches_regex':
    return re.fullmatch('(?:%s)(?s:.*)' % a[0], str(p), _re_flags(spec.get('flags') or '')) is not None, None
  if k == 'pivot':
    if not isinstance(p, list):
      return None, None
    return all(expected_accept(spec['sub'], row[-1])[0] for row in p), None
  if k == 'cpivot':
    if not isinstance(p, list):
      return None, None
    flags = [expected_accept(spec['sub'], row[-1])[0] for row in p]
    if True not in flags:
      return False, None
    return all(flags[flags.index(True):]), None
  raise ValueError(k)


def limits_of(spec):
  k = spec['k']
  a = [dec(x) for x in spec.get('a', [])]
  if k in ('in_range', 'in_range_with_args'):
    return [conv(x, spec.get('t')) for x in a]
  if k == 'all_in_range':
    return a
  if k == 'within_percent':
    e, pc = Fraction(a[0]), Fraction(a[1])
    tol = abs(e * pc / 100)
    ls = [float(e - tol), float(e + tol), a[0]]
    if len(a) == 3 and a[2] is not None:
      mt = abs(e * Fraction(a[2]) / 100)
      ls += [float(e - mt), float(e + mt)]
    return ls
  if k in ('equals', 'all_equals') and isinstance(a[0], (int, float)):
    return [conv(a[0], spec.get('t'))]
  if k in ('pivot', 'cpivot'):
    return limits_of(spec['sub'])
  return []


STRINGS = ['abc', 'a.c', 'a+b', '', 'x*', '(1)', '[a]', 'a\\b', 'a\nb', 'a|b', '^a$', 'a b', '{x}', 'é', '12', '1.5', 'A.C']


def string_probes(s):
  out = [s, s + '\n', s + '\n\n', '\n' + s, s + 'x', 'x' + s, s[:-1], s.upper(), s.lower(), s + ' ', ' ' + s,
         s.replace('.', 'x').replace('+', 'a').replace('*', 'x'), s + s, 'x\n' + s, s + '\nx', None, 0, 12, 1.5, True]
  seen, res = set(), []
  for p in out:
    kk = repr(p)
    if kk not in seen:
      seen.add(kk)
      res.append(p)
  return res


REGEXES = ['abc', 'a.c', r'\d+', r'^\d+$', 'a|b', '(ab)+', '[a-c]x', 'a?b', r'\d+\.\d+', 'b$', '', r'\s*x', '1', '[A-C]+c']
def _re_flags(names):
  f = 0
  for c in names:
    f |= {'I': re.IGNORECASE, 'S': re.DOTALL, 'M': re.MULTILINE}[c]
  return f


REGEX_PROBES = ['Abc', 'aBC', 'A\nC', 'AX', 'x\nb', 'x\n123', 'B', 'abc', 'xabc', 'abcx', 'abd', 'axc', 'a\nc', '123', '123x', 'x123', '12.5', 'a', 'b', 'ab', 'abab', 'cab', 'ax', 'bx',
                'dx', 'b\n', 'b\nx', '', ' x', '\n x', 'ABC', 123, 12.5, 1, None, True, '1', '01', 'xb']


def probes_for(spec):
  k = spec['k']
  a = [dec(x) for x in spec.get('a', [])]
  if k in ('in_range', 'in_range_with_args', 'within_percent'):
    ps = probes_around(limits_of(spec))
    if k == 'in_range':
      ps += ['abc', '5']
    return ps
  if k == 'all_in_range':
    base = probes_around(limits_of(spec))
    inside = [p for p in base if oracle_range(p, a[0], a[1])]
    lists = [[]] + [[p] for p in base]
    for i, p in enumerate(inside[:6]):
      for q in base[i::5]:
        lists.append([p, q])
        lists.append([q, p, p])
    return lists
  if k == 'equals':
    x = a[0]
    if isinstance(x, (int, float)):
      return probes_around(limits_of(spec)) + [str(x)]
    if isinstance(x, str):
      return string_probes(x)
    return [x, copy.deepcopy(x), str(x), None, 0, (), [], (1, 2), [1, 'a'], (1, 2, 3), {'a': 1}, {'a': 2}, b'ab', 'ab', [x]]
  if k == 'all_equals':
    x = a[0]
    if isinstance(x, (int, float)):
      base = probes_around([x])
      return [[]] + [[p] for p in base] + [[x, p] for p in base] + [[p, x, x] for p in base]
    if isinstance(x, str):
      base = [p for p in string_probes(x)]
      return [[]] + [[p] for p in base] + [[x, p] for p in base] + [[x, x]]
    base = [x, copy.deepcopy(x), None, 0, (1, 2), (1, 3)]
    return [[]] + [[p] for p in base] + [[x, p] for p in base]
  if k == 'matches_regex':
    return list(REGEX_PROBES)
  if k in ('pivot', 'cpivot'):
    sub = spec['sub']
    vals = probes_around(limits_of(sub))
    good = [v for v in vals if expected_accept(sub, v)[0]][:2]
    bad = [v for v in vals if not expected_accept(sub, v)[0]][:3]
    if not good or not bad:
      return [[]]
    rows = []
    for n in range(0, 5):
      for pat in itertools.product([0, 1], repeat=n):
        rows.append([(i, 'c%d' % i, (good[i % len(good)] if b else bad[i % len(bad)])) for i, b in enumerate(pat)])
    return rows
  raise ValueError(k)


# ------------------------------------------------------------------ the check of one spec (all its probes)
def check_spec(spec, acct, known=(), only_probe=None):
  """Runs every probe of `spec`; records cases/violations in acct. Returns list of (sig, detail)."""
  out = []

  def bad(sig, case, detail):
    out.append((sig, detail))
    if acct is not None:
      (acct.known if sig in known else acct.violation)(sig, case, detail)

  k = spec['k']
  sj = spec
  # --- constructor consistency
  ctor = spec.get('ctor')  # 'reject' | 'accept' | None
  try:
    v = build(spec)
    err = None
  except ValueError as e:
    v, err = None, e
  except Exception as e:  # pylint: disable=broad-except
    v, err = None, e
  if ctor == 'reject':
    case = {'spec': sj, 'ctor': 'must-reject'}
    if acct is not None:
      acct.case(case, True, ['ctor-reject'])
    if v is not None or not isinstance(err, ValueError):
      bad('C07/%s/ctor-accepts-inconsistent' % k, case, 'constructor must raise ValueError, got %r' % (err,))
    return out
  if v is None:
    case = {'spec': sj, 'ctor': 'must-accept'}
    if acct is not None:
      acct.case(case, True, ['ctor-accept'])
    bad('C07/%s/ctor-rejects-consistent' % k, case, 'constructor raised %r for consistent limits' % (err,))
    return out

  limits = limits_of(spec)
  probes = probes_for(spec)
  clones = []
  try:
    clones.append(('deepcopy', copy.deepcopy(v)))
  except Exception as e:  # pylint: disable=broad-except
    bad('C07/%s/deepcopy-raises' % k, {'spec': sj}, repr(e))
  if hasattr(v, 'with_args'):
    try:
      clones.append(('with_args', v.with_args()))
    except Exception as e:  # pylint: disable=broad-except
      bad('C07/%s/with_args-raises' % k, {'spec': sj}, repr(e))
  try:
    clones.append(('rebuilt', build(spec)))
  except Exception:  # pylint: disable=broad-except
    pass
  for name, c in clones:
    if safe_str(c) != safe_str(v):
      bad('C07/%s/%s-prints-differently' % (k, name), {'spec': sj}, '%s vs %s' % (v, c))
    if type(v).__dict__.get('__eq__') is not None:
      try:
        same = bool(c == v)
      except Exception as e:  # pylint: disable=broad-except
        same = True
        bad('C07/%s/%s-eq-raises' % (k, name), {'spec': sj}, 'comparing %s with its %s: %r' % (safe_str(v), name, e))
      if not same:
        bad('C07/%s/%s-not-equal' % (k, name), {'spec': sj}, '%s != %s' % (v, c))

  for p in probes:
    pj = enc(p)
    if only_probe is not None and pj != only_probe:
      continue
    case = {'spec': sj, 'probe': pj}
    if k in ('all_in_range', 'all_equals'):
      pcs = sorted({probe_class(x, limits) for x in p}) if p else ['empty']
      pc = '+'.join(pcs)
      nontriv = bool(set(pcs) & NONTRIVIAL_CLASSES) or not p
    elif k in ('pivot', 'cpivot'):
      pc = 'rows%d' % len(p)
      nontriv = len(p) >= 2
    elif k == 'equals' and isinstance(dec(spec['a'][0]), str):
      x = dec(spec['a'][0])
      pc = 'str-exact' if p == x else ('str-newline' if isinstance(p, str) and p.rstrip('\n') == x else 'str-other')
      nontriv = isinstance(p, str) and (p != x)
    elif k == 'matches_regex':
      pc = 'regex'
      nontriv = True
    else:
      pc = probe_class(p, limits)
      nontriv = pc in NONTRIVIAL_CLASSES
    if acct is not None:
      acct.case(case, nontriv, [k, 'probe:' + pc])
    exp, exp_marg = expected_accept(spec, p)
    if exp is None:
      continue
    got, exc = call_bool(v, p)
    if got != exp:
      what = pc.split('+')[0] if k != 'matches_regex' else 'regex'
      if k == 'all_equals' and isinstance(dec(spec['a'][0]), str):
        what = 'string-spec'
      bad('C07/%s/%s/%s' % (k, 'accepts-outside' if got else 'rejects-inside', what),
          case, 'validator %s on probe %r: accepted=%s expected=%s exc=%s' % (v, p, got, exp, exc))
    # marginal
    if hasattr(v, 'is_marginal'):
      gm, mexc = call_bool(v.is_marginal, p)
      if k == 'within_percent':
        if gm and not exp:
          bad('C07/within_percent/marginal-outside-tolerance', case, '%s is_marginal(%r) but value is outside tolerance' % (v, p))
        if mexc is not None and exc is None and isinstance(p, (int, float)) and not isinstance(p, bool) and p == p:
          # a validly constructed validator that decides a number also says whether it is marginal
          bad('C07/within_percent/is_marginal-raised', case, '%s accepts/rejects %r but is_marginal(%r) raised %s' % (v, p, p, mexc))
      elif exp_marg is not None and gm != exp_marg:
        bad('C07/%s/marginal-%s' % (k, 'spurious' if gm else 'missed'), case,
            '%s is_marginal(%r)=%s expected %s exc=%s' % (v, p, gm, exp_marg, mexc))
    # clones decide identically
    for name, c in clones:
      cg, _ = call_bool(c, p)
      if cg != got:
        bad('C07/%s/%s-decides-differently' % (k, name), case, '%s: original=%s %s=%s on %r' % (v, got, name, cg, p))
      if hasattr(c, 'is_marginal') and hasattr(v, 'is_marginal'):
        cm, _ = call_bool(c.is_marginal, p)
        if cm != gm:
          bad('C07/%s/%s-marginal-differs' % (k, name), case, '%s: original=%s %s=%s on %r' % (v, gm, name, cm, p))

  # within_percent symmetry
  if k == 'within_percent' and only_probe is None:
    a = [dec(x) for x in spec['a']]
    e = a[0]
    tol = abs(Fraction(e) * Fraction(a[1]) / 100)
    for d in [Fraction(0), tol, tol / 2, tol + 1, tol + Fraction(1, 2), 2 * tol, Fraction(1), Fraction(1, 2), tol - Fraction(1, 4), tol + Fraction(1, 1024)]:
      hi_, lo_ = Fraction(e) + d, Fraction(e) - d
      fh, fl = float(hi_), float(lo_)
      if Fraction(fh) != hi_ or Fraction(fl) != lo_:
        continue
      gh, _ = call_bool(v, fh)
      gl, _ = call_bool(v, fl)
      case = {'spec': sj, 'sym': [enc(fl), enc(fh)]}
      if acct is not None:
        acct.case(case, d in (tol, tol + Fraction(1, 1024), tol - Fraction(1, 4)), ['within_percent', 'symmetry'])
      if gh != gl:
        bad('C07/within_percent/asymmetric', case, '%s accepts %r=%s but %r=%s' % (v, fl, gl, fh, gh))
  return out


def check_eq_pair(s1, s2, acct, known=()):
  """Equal validators decide identically (and unequal decisions imply !=)."""
  out = []
  try:
    a, b = build(s1), build(s2)
  except Exception:  # pylint: disable=broad-except
    return out
  try:
    eq = bool(a == b)
  except Exception:  # pylint: disable=broad-except
    return out
  case = {'eq_pair': [s1, s2]}
  if acct is not None:
    acct.case(case, eq, ['eq-pair', 'eq-pair:' + ('equal' if eq else 'unequal')])
  if eq:
    for p in probes_for(s1) + probes_for(s2):
      ga, _ = call_bool(a, p)
      gb, _ = call_bool(b, p)
      ma = mb = None
      if ga and gb and hasattr(a, 'is_marginal') and hasattr(b, 'is_marginal'):
        ma, _ = call_bool(a.is_marginal, p)       # "decide identically" covers the marginal verdict on a passing value
        mb, _ = call_bool(b.is_marginal, p)
      if ga != gb or ma != mb:
        sig = 'C07/%s/equal-but-decide-differently' % s1['k']
        d = '%s == %s but on %r: accept %s vs %s, marginal %s vs %s' % (a, b, p, ga, gb, ma, mb)
        out.append((sig, d))
        if acct is not None:
          (acct.known if sig in known else acct.violation)(sig, case, d)
        break
  return out


# ------------------------------------------------------------------ spec grids
GRID = [None, -2.5, 0, 1, 8, 100]


def range_specs(kind):
  for tup in itertools.product(GRID, repeat=4):
    cls = range_ctor_class(*tup)
    if cls is None:
      continue
    yield {'k': kind, 'a': [enc(x) for x in tup], 'ctor': cls}


TYPED = [
    (['1', '5', None, None], 'int'), (['-2', '8', '0', '5'], 'int'), (['1.5', '2.5', None, None], 'float'),
    (['1', '100', '2.5', '8'], 'float'), ([None, '5', None, '1'], 'int'), (['-8', None, '-2', None], 'int'),
    (['1e2', '1e3', None, None], 'float'), ([1.5, 8.5, None, None], 'int'), ([False, True, None, None], None),
    ([1, 8, 2, 7], 'float'), (['8', '8', None, None], 'int'), ([True, 8, None, None], 'int'),
]


def _num_of(x, t):
  return x if x is None or not isinstance(x, str) else {'int': lambda v: int(float(v)), 'float': float}[t](x)


TYPED_INCONSISTENT = [
    # numeric strings that type= turns into limits the statement lists as inconsistent
    (['5', '1', None, None], 'int'), (['2.5', '1.5', None, None], 'float'), (['1', '5', '0', None], 'int'), (['1', '5', None, '7'], 'int'),
    (['1', '9', '7', '3'], 'int'), (['10', '9', None, None], 'int'), (['1e3', '1e2', None, None], 'float'), ([5, '1', None, None], 'int'),
]


def typed_specs():
  for a, t in TYPED:
    yield {'k': 'in_range', 'a': [enc(x) for x in a], 't': t, 'ctor': 'accept'}
  for a, t in TYPED_INCONSISTENT:
    yield {'k': 'in_range', 'a': [enc(x) for x in a], 't': t, 'ctor': 'reject'}
    for style in '{%':
      yield {'k': 'in_range_with_args', 'a': [enc(_num_of(x, t)) for x in a], 't': t, 'style': style, 'ctor': 'reject'}
    if t and all(x is None or isinstance(x, (int, float)) and not isinstance(x, bool) for x in a):
      pass
  for a, t in [([1, 5, None, None], 'int'), ([-2, 8, 0, 5], 'int'), ([1.5, 2.5, None, None], 'float'),
               ([None, 5, None, 1], 'int'), ([-8, None, -2, None], 'float'), ([0, 100, 1, 8], 'float')]:
    for style in '{%':
      yield {'k': 'in_range_with_args', 'a': [enc(x) for x in a], 't': t, 'style': style, 'ctor': 'accept'}


def percent_specs():
  es = [-200, -100, -8, -0.5, 0, 4, 100, 1000, 2.5, -2.5, 1, 64]
  ps = [0, 1, 5, 10, 25, 50, 100, 150, 200, 12.5]
  for e in es:
    for p in ps:
      tol = abs(Fraction(e) * Fraction(p) / 100)
      if Fraction(float(tol)) != tol:
        continue
      yield {'k': 'within_percent', 'a': [enc(e), enc(p)], 'ctor': 'accept'}
      for m in [None, 0, 1, 5, 10, 25, 50, 100, 150, 200]:
        if m is None:
          yield {'k': 'within_percent', 'a': [enc(e), enc(p), None], 'ctor': 'accept'}
          continue
        mt = abs(Fraction(e) * Fraction(m) / 100)
        if Fraction(float(mt)) != mt:
          continue
        yield {'k': 'within_percent', 'a': [enc(e), enc(p), enc(m)], 'ctor': 'reject' if m >= p else 'accept'}
    for p in [-1, -0.5, -100]:
      yield {'k': 'within_percent', 'a': [enc(e), enc(p)], 'ctor': 'reject'}


def equals_specs():
  for x in [-1000, -2.5, -1, 0, 0.5, 1, 8, 100, 10**30, True, False, 0.1, 1e300, -0.0, 5e-324]:
    yield {'k': 'equals', 'a': [enc(x)], 'ctor': 'accept'}
    yield {'k': 'all_equals', 'a': [enc(x)], 'ctor': 'accept'}
  for x, t in [(5.0, 'int'), (5, 'float'), (7.9, 'int'), (True, 'int')]:
    yield {'k': 'equals', 'a': [enc(x)], 't': t, 'ctor': 'accept'}
  for s in STRINGS:
    yield {'k': 'equals', 'a': [s], 'ctor': 'accept'}
    yield {'k': 'equals', 'a': [s], 't': 'str', 'ctor': 'accept'}
    yield {'k': 'all_equals', 'a': [s], 'ctor': 'accept'}
  for o in [None, (1, 2), [1, 'a'], {'a': 1}, b'ab', ()]:
    yield {'k': 'equals', 'a': [enc(o)], 'ctor': 'accept'}
    yield {'k': 'all_equals', 'a': [enc(o)], 'ctor': 'accept'}


def regex_specs():
  for r in REGEXES:
    yield {'k': 'matches_regex', 'a': [r], 'ctor': 'accept'}
  for r in REGEXES:
    for flags in ('I', 'S', 'M', 'IS'):
      for via in ('class', 'factory'):
        yield {'k': 'matches_regex', 'a': [r], 'flags': flags, 'via': via, 'ctor': 'accept'}


def pivot_specs():
  subs = [{'k': 'in_range', 'a': [enc(x) for x in a], 'ctor': 'accept'} for a in
          [[0, 8, None, None], [None, 1, None, None], [-2.5, None, None, None], [1, 1, None, None]]]
  subs.append({'k': 'within_percent', 'a': [100, 10], 'ctor': 'accept'})
  subs.append({'k': 'equals', 'a': [8], 'ctor': 'accept'})
  for sub in subs:
    yield {'k': 'pivot', 'sub': sub, 'ctor': 'accept'}
    yield {'k': 'cpivot', 'sub': sub, 'ctor': 'accept'}


def all_specs():
  return (list(range_specs('in_range')) + list(range_specs('all_in_range')) + list(typed_specs()) +
          list(percent_specs()) + list(equals_specs()) + list(regex_specs()) + list(pivot_specs()))


def eq_pairs():
  a = [{'k': 'in_range', 'a': [enc(x) for x in t]} for t in
       [[1, 5, None, None], [1.0, 5.0, None, None], [1, 5, 2, None], [1, 5, 2, 4], [1, 8, None, None], [None, 5, None, None], [True, 5, None, None]]]
  a += [{'k': 'in_range', 'a': ['1', '5', None, None], 't': 'int'}, {'k': 'in_range', 'a': ['1', '5', None, None], 't': 'float'}]
  a += [{'k': 'within_percent', 'a': t} for t in [[100, 10], [100, 10.0], [100.0, 10, None], [100, 10, 5], [100, 5], [-100, 10], [100, 10, 0], [100, 10, 0.0],
                                                 [-50, 200], [-50, 200, 0], [-50, 200, None]]]
  a += [{'k': 'equals', 'a': [x]} for x in ['abc', 'a.c', 'abd']] + [{'k': 'matches_regex', 'a': [r]} for r in ['^abc$', 'abc', 'a.c']]
  a += [{'k': 'equals', 'a': [enc(x)]} for x in [(1, 2), [1, 'a'], None]]
  return list(itertools.combinations(a, 2))


# ------------------------------------------------------------------ hypothesis part
def _num():
  return st.one_of(st.integers(-10**6, 10**6), st.floats(allow_nan=False, allow_infinity=False, width=64),
                   st.integers(-10**30, 10**30), st.sampled_from([0, 1, -1, 0.5, 2**53, 2**53 + 1, -2**53 - 1, 1e308, 5e-324]))


@st.composite
def random_range_case(draw):
  kind = draw(st.sampled_from(['in_range', 'all_in_range']))
  xs = sorted(draw(st.lists(_num(), min_size=4, max_size=4)), key=key)
  lo, mlo, mhi, hi = xs
  mask = draw(st.tuples(st.booleans(), st.booleans(), st.booleans(), st.booleans()))
  lo = lo if mask[0] else None
  hi = hi if mask[1] else None
  mlo = mlo if (mask[2] and lo is not None) else None
  mhi = mhi if (mask[3] and hi is not None) else None
  if lo is None and hi is None:
    lo = xs[0]
  base = [x for x in (lo, mlo, mhi, hi) if x is not None]
  p = draw(st.one_of(st.sampled_from(base), _num(), st.sampled_from(base).map(lambda x: math.nextafter(float(x), INF)),
                     st.sampled_from(base).map(lambda x: math.nextafter(float(x), -INF)),
                     st.sampled_from([NAN, INF, -INF, None, -0.0])))
  if kind == 'all_in_range':
    others = draw(st.lists(st.one_of(st.sampled_from(base), _num()), max_size=3))
    p = others + [p]
  return {'spec': {'k': kind, 'a': [enc(lo), enc(hi), enc(mlo), enc(mhi)], 'ctor': 'accept'}, 'probe': enc(p)}


@st.composite
def random_percent_case(draw):
  p = draw(st.integers(0, 400))
  unit = draw(st.integers(-10**6, 10**6))
  e = unit * 100 if p % 100 else unit
  if (e * p) % 100:
    e = e * 100
  tol = abs(e * p // 100)
  d = draw(st.one_of(st.sampled_from([0, tol, tol + 1, max(tol - 1, 0)]), st.integers(0, 2 * tol + 2)))
  return {'spec': {'k': 'within_percent', 'a': [e, p], 'ctor': 'accept'}, 'sym_d': d}


def check_random(case):
  r = CaseResult()
  spec = case['spec']
  if 'sym_d' in case:
    e, p = spec['a']
    d = case['sym_d']
    tol = abs(e * p // 100)
    try:
      v = build(spec)
    except Exception as ex:  # pylint: disable=broad-except
      r.bad('C07/within_percent/ctor-rejects-consistent', repr(ex))
      return r
    gh, _ = call_bool(v, e + d)
    gl, _ = call_bool(v, e - d)
    exp = d <= tol
    r.nontrivial = abs(d - tol) <= 1
    r.classes = ['hyp-percent', 'hyp-percent:' + ('neg' if e < 0 else 'pos' if e > 0 else 'zero')]
    if gh != gl:
      r.bad('C07/within_percent/asymmetric', '%s accepts e+d=%s e-d=%s (d=%d)' % (v, gh, gl, d))
    elif gh != exp:
      r.bad('C07/within_percent/%s/hyp' % ('accepts-outside' if gh else 'rejects-inside'), '%s d=%d tol=%d got %s' % (v, d, tol, gh))
    return r
  vs = check_spec(spec, None, only_probe=case['probe'])
  p = dec(case['probe'])
  lim = limits_of(spec)
  pcs = {probe_class(x, lim) for x in (p if isinstance(p, list) else [p])}
  r.nontrivial = bool(pcs & NONTRIVIAL_CLASSES)
  r.classes = ['hyp-range'] + ['hyp-probe:' + c for c in sorted(pcs)]
  for sig, detail in vs:
    r.bad(sig, detail)
  return r


# ------------------------------------------------------------------ runner interface
# ------------------------------------------------------------------ the same raw limits under different declared types
def typed_histories():
  """Sequences of validators built one after the other in one process: the same raw limits declared with different types
  (and, for contrast, untyped).  A validator must decide by ITS declaration, whatever was built or evaluated before."""
  raws = [[1.5, 8.5, None, None], [2.7, 9.2, 3.9, 8.1], [-2.5, 7.9, None, 6.5], [0.5, 100.5, 1.5, None]]
  k = 0
  for raw in raws:
    for order in (('int', 'float', None), ('float', 'int'), (None, 'int', 'float')):
      k += 1
      shifted = [None if x is None else x + 16 * k for x in raw]   # distinct raw values per sequence
      yield [{'k': 'in_range', 'a': [enc(x) for x in shifted], 't': t, 'ctor': 'accept'} for t in order]
  for i, e in enumerate([7.9, -3.2, 120.5]):
    for order in (('int', 'float'), ('float', 'int')):
      yield [{'k': 'equals', 'a': [enc(e + 1000 * (1 + order.index('int')))], 't': t, 'ctor': 'accept'} for t in order]


def check_history(specs, acct=None, known=()):
  out = []
  for i, spec in enumerate(specs):
    for sig, detail in check_spec(spec, None):
      sig2 = sig + '/after-other-declarations'
      detail2 = 'validator %d of the sequence %r: %s' % (i, [(dec_all(x['a']), x['t']) for x in specs], detail)
      out.append((sig2, detail2))
      if acct is not None:
        (acct.known if sig2 in known else acct.violation)(sig2, {'typed_history': specs}, detail2)
      break
  if acct is not None:
    acct.case({'typed_history': specs}, True, ['typed-history'])
  return out


def dec_all(a):
  return [dec(x) for x in a]


# ------------------------------------------------------------------ one validator object used by several threads
SHARED_SPECS = [
    ('equals-bytes-hex', lambda V, conv: V.Equals(b'0x12', type=conv), [18, b'0x12', 17], [True, False, False]),
    ('in_range-typed', lambda V, conv: V.InRange('0x10', '0x12', type=conv), [16, 17, 18, 19, 15], [True, True, True, False, False]),
    ('equals-typed-number', lambda V, conv: V.equals('0x12', type=conv) if False else V.InRange('0x12', '0x12', type=conv), [18, 17], [True, False]),
]


def check_shared_validator(case):
  """case = {'shared': index, 'plan': {...}}: the measurement declarations of a phase (and their validators) are shared by every
  test that runs it, so two tests validating at the same time call the SAME validator object; the declared type's converter
  is a Python function (preemptible).  Every call, in every thread, and a deep copy taken meanwhile decide like the
  sequential reference."""
  from vf import vmode  # pylint: disable=g-import-not-at-top
  from vf import vsched as V_  # pylint: disable=g-import-not-at-top
  import threading as real_threading  # pylint: disable=g-import-not-at-top
  r = CaseResult()
  vmode.setup()
  from openhtf.util import validators as V  # pylint: disable=g-import-not-at-top
  V_.monitor_lines(V_.code_objects_of(V.Equals, V.InRange, V.RangeValidatorBase) if hasattr(V, 'RangeValidatorBase') else V_.code_objects_of(V.Equals, V.InRange))
  name, mk, probes, want = SHARED_SPECS[case['shared']]
  plan_ = {int(k): v for k, v in (case.get('plan') or {}).items()}

  def fn(s):
    def conv(x):
      s.yield_point('converter')      # parsing a spec string takes a while
      return int(x, 16) if isinstance(x, (str, bytes)) else x

    v = mk(V, conv)
    out = {}

    def user(i):
      res = []
      vv = v if i == 0 else (copy.deepcopy(v) if i == 2 else v)
      for p in probes:
        try:
          res.append(bool(vv(p)))
        except Exception as e:  # pylint: disable=broad-except
          res.append('raised ' + type(e).__name__)
      out[i] = res

    ths = [real_threading.Thread(target=user, args=(i,), name='user%d' % i, daemon=True) for i in range(3)]
    for t in ths:
      t.start()
    for t in ths:
      t.join()
    return out

  s = V_.Scheduler(plan=plan_, time_limit=1e4, max_steps=100000)
  out, exc = s.run(lambda: fn(s), watchdog_s=15.0)
  if s.failure is not None:
    raise RuntimeError('scheduler failure %r' % (s.failure,))
  if exc is not None:
    raise exc
  for i in sorted(out):
    if out[i] != want:
      r.bad('C07/shared-validator/%s' % ('copy-decides-differently' if i == 2 else 'decides-differently-under-concurrency'),
            '%s plan=%r: thread %d (%s) decided %r on probes %r, sequentially it decides %r' % (
                name, case.get('plan'), i, 'deep copy taken meanwhile' if i == 2 else 'same object', out[i], probes, want))
      break
  r.nontrivial = bool(s.effective_preemptions)
  r.classes = ['shared-validator', name, 'preemptions:%d' % min(len(s.effective_preemptions), 3)]
  return r, s


def plan(tier, seed):
  specs = all_specs()
  nshards = 16
  jobs = [{'kind': 'grid', 'name': 'grid%d' % i, 'shard': i, 'nshards': nshards} for i in range(nshards)]
  jobs.append({'kind': 'eqpairs', 'name': 'eqpairs'})
  jobs.append({'kind': 'typed-history', 'name': 'typed-history'})
  for i in range(len(SHARED_SPECS)):
    jobs.append({'kind': 'shared-validator', 'name': 'shared-validator%d' % i, 'shared': i})
  n = 1500 if tier == 'quick' else 40000
  for i in range(8 if tier == 'quick' else 16):
    jobs.append({'kind': 'hyp', 'name': 'hyp%d' % i, 'hseed': seed * 1000 + i, 'n': n, 'which': 'range' if i % 2 == 0 else 'percent'})
  del specs
  return jobs


def run_job(job, acct):
  known = set(job.get('known', ()))
  if job['kind'] == '_regress':
    from vf import runner  # pylint: disable=g-import-not-at-top
    import sys  # pylint: disable=g-import-not-at-top
    runner.run_regress(sys.modules[__name__], job, acct)
  elif job['kind'] == 'grid':
    specs = all_specs()
    for i, spec in enumerate(specs):
      if i % job['nshards'] == job['shard']:
        check_spec(spec, acct, known)
    if job['shard'] == 0:
      acct.exhaustive_parts.append('boundary grid: %d validator specs x all their probes, enumerated completely' % len(specs))
  elif job['kind'] == 'eqpairs':
    for s1, s2 in eq_pairs():
      check_eq_pair(s1, s2, acct, known)
  elif job['kind'] == 'shared-validator':
    base = {'shared': job['shared'], 'plan': {}}
    r0, s0 = check_shared_validator(base)
    acct.case(base, r0.nontrivial, r0.classes)
    for sig, detail in r0.violations:
      (acct.known if sig in known else acct.violation)(sig, base, detail)
    for k in range(s0.k + 2):
      for c in (0, 1, 2):
        case = dict(base, plan={str(k): c})
        r, _ = check_shared_validator(case)
        acct.case(case, r.nontrivial, r.classes)
        for sig, detail in r.violations:
          (acct.known if sig in known else acct.violation)(sig, case, detail)
    acct.exhaustive_parts.append('shared validator %s: every single preemption over %d yield points, 3 threads' % (SHARED_SPECS[job['shared']][0], s0.k + 2))
  elif job['kind'] == 'typed-history':
    for specs in typed_histories():
      check_history(specs, acct, known)
  elif job['kind'] == 'hyp':
    strat = random_range_case() if job['which'] == 'range' else random_percent_case()
    hyp.search(acct, strat, check_random, seed=job['hseed'], max_examples=job['n'], known=known)


def replay(case):
  if 'shared' in case:
    return check_shared_validator(case)[0].violations
  if 'typed_history' in case:
    return check_history(case['typed_history'])
  if 'eq_pair' in case:
    return check_eq_pair(case['eq_pair'][0], case['eq_pair'][1], None)
  if 'sym_d' in case:
    return check_random(case).violations
  if 'probe' in case:
    return check_spec(case['spec'], None, only_probe=case['probe'])
  return check_spec(case['spec'], None)
