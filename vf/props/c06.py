"""C06 - measurement outcome = all validators on the recorded (transformed) value; history-based model check."""
import math
import sys

from hypothesis import strategies as st

from vf import hyp
from vf import ohtf
from vf.hyp import CaseResult
from vf.props.c07 import dec, enc

ID = 'C06'
LEVEL = 'exploration'
RULE = ('Case = declarations of 1-3 measurements (scalar / 1-D / 2-D; validators from {in_range with marginal bands, equals, '
        'matches_regex, within_percent, threshold validator that records the values it sees, raising validator}; transform from '
        '{none, precision n, x k, str}; conditional validators keyed on diagnosis results that an earlier phase may or may not emit, as ordinary or internal diagnoses) '
        'x an operation history (<=25 ops) executed by a real phase body through the TestApi: set, override, set coordinate, '
        'override coordinate, set undeclared name, set dimensioned without coordinates, wrong coordinate arity, unhashable '
        'coordinate, read back; values from ints, floats incl. NaN/+-inf/-0.0, None, str, bool, huge ints.  Oracle = dict model: '
        'recorded value = transform(last assigned) per coordinate in first-assignment order; outcome UNSET / PASS iff all attached '
        '(+ applicable conditional) validators, rebuilt fresh from their spec, accept the model value; marginal => PASS and some '
        'validator marginal; rejected ops raise and leave value/outcome/marginal unchanged; after the phase nothing is '
        'PARTIALLY_SET; a raising validator => FAIL + error at the assignment (scalar) or as the phase result (dimensioned).  '
        'Compared after every op and on the final record.  Non-trivial = history with an override, or a rejected op after a set, '
        'or an applicable conditional validator; distinct by canonical case.  Second domain (deterministic scheduler): the phase '
        'thread is descheduled past its timeout at every line of its assignments (8 scripts: first / second / overriding assignment to '
        'validated and plain, scalar and dimensioned measurements), so the executor finalizes the phase and kills the thread in the '
        'middle of an assignment; the finalized record must still be consistent: nothing PARTIALLY_SET, no outcome other than '
        'UNSET without a recorded value, no UNSET with one, PASS/FAIL as the validators decide on the recorded value.')
ASSUMPTIONS = ['Validator decision logic itself is C07; here validators are rebuilt from their spec and applied to the model value.',
               'A transform that raises (e.g. round(None)) is treated as a rejected assignment.']


class _Rec(object):
  seen = []


def threshold_validator(t):
  def v(value):
    _Rec.seen.append(('thr', t, value))
    return value >= t
  v.__name__ = 'at_least_%s' % t
  return v


def list_len_validator(n):
  def v(rows):
    _Rec.seen.append(('len', n, list(rows)))
    return len(rows) >= n
  return v


class ValidatorBoom(Exception):
  pass


def raising_validator(value):
  raise ValidatorBoom('validator raises')


def build_validator(vs, dims):
  from openhtf.util import validators as V  # pylint: disable=g-import-not-at-top
  k = vs[0]
  if k == 'in_range':
    sub = V.in_range(*[dec(x) for x in vs[1:]])
  elif k == 'equals':
    sub = V.equals(dec(vs[1]))
  elif k == 'regex':
    sub = V.matches_regex(vs[1])
  elif k == 'within_percent':
    sub = V.WithinPercent(dec(vs[1]), dec(vs[2]), dec(vs[3]) if len(vs) > 3 else None)
  elif k == 'thr':
    sub = threshold_validator(dec(vs[1]))
  elif k == 'raises':
    return raising_validator
  elif k == 'len':
    return list_len_validator(vs[1])
  else:
    raise ValueError(k)
  if dims:
    return V.dimension_pivot_validate(sub)
  return sub


def build_transform(ts):
  if ts is None:
    return None
  if ts[0] == 'prec':
    return ('prec', ts[1])
  if ts[0] == 'mul':
    k = ts[1]
    return lambda x: x * k
  if ts[0] == 'str':
    return lambda x: 's:%s' % (x,)
  raise ValueError(ts)


def model_transform(ts, v):
  if ts is None:
    return v
  if ts[0] == 'prec':
    return round(v, ndigits=ts[1])
  if ts[0] == 'mul':
    return v * ts[1]
  if ts[0] == 'str':
    return 's:%s' % (v,)


def same(a, b):
  """Equality that treats NaN == NaN and distinguishes types bool/int loosely like ==."""
  if isinstance(a, float) and isinstance(b, float) and a != a and b != b:
    return True
  if isinstance(a, (list, tuple)) and isinstance(b, (list, tuple)):
    return len(a) == len(b) and all(same(x, y) for x, y in zip(a, b))
  try:
    return type(a) == type(b) and a == b
  except Exception:  # pylint: disable=broad-except
    return False


def evaluate(decl, value, cond_active):
  """Model outcome for a set measurement: ('PASS'|'FAIL', marginal_possible, raised)."""
  specs = list(decl['validators']) + [vs for r, vs in decl['cond'] if r in cond_active]
  ok = True
  raised = False
  marg = False
  for vs in specs:
    v = build_validator(vs, decl['dims'])
    try:
      acc = bool(v(value))
    except Exception:  # pylint: disable=broad-except
      return 'FAIL', False, True
    if not acc:
      ok = False
      break  # all() short-circuits; later validators are not consulted
  if ok:
    for vs in specs:
      v = build_validator(vs, decl['dims'])
      if hasattr(v, 'is_marginal'):
        try:
          if v.is_marginal(value):
            marg = True
            break
        except Exception:  # pylint: disable=broad-except
          return 'FAIL', False, True
  return ('PASS' if ok else 'FAIL'), marg, raised


def check(case):
  r = CaseResult()
  htf = ohtf.reset_case(allow_unset_measurements=bool(case.get('allow_unset')))
  from vf import progs  # pylint: disable=g-import-not-at-top
  R = progs.result_enum()
  members = [R.R0, R.R1, R.R2, R.R3]
  decls = case['meas']
  names = ['m%d' % i for i in range(len(decls))]
  measurements = []
  for name, d in zip(names, decls):
    m = htf.Measurement(name)
    if d['dims']:
      m = m.with_dimensions(*['d%d' % i for i in range(d['dims'])])
    t = build_transform(d['transform'])
    if t is not None:
      m = m.with_precision(t[1]) if isinstance(t, tuple) else m.with_transform(t)
    for vs in d['validators']:
      m = m.with_validator(build_validator(vs, d['dims']))
    if d['cond']:
      for res, vs in d['cond']:
        m = m.validate_on({members[res]: build_validator(vs, d['dims'])})
    measurements.append(m)
  cond_active = set(case['diag'])

  @htf.PhaseDiagnoser(R, name='emitter')
  def emitter(phase_record):
    # results are issued as ordinary or as internal diagnoses (internal ones steer later phases without being exported)
    return [htf.Diagnosis(members[x], 'd', is_internal=bool(x in case.get('internal', ()))) for x in case['diag']]

  @htf.diagnose(emitter)
  def first(test):
    pass

  problems = []   # (sig, detail) found inside the body
  model = {}      # name -> scalar: {'set': bool, 'value': v} | dims: OrderedDict-like list of [coords, value]
  for name, d in zip(names, decls):
    model[name] = {'set': False, 'value': None, 'rows': [], 'outcome': 'UNSET', 'raised': False}
  flags = {'override': False, 'reject_after_set': False, 'any_set': False}

  def snapshot(state):
    out = {}
    for name in names:
      m = state.running_phase_state.measurements[name]
      mv = m.measured_value
      val = None
      if mv.is_value_set:
        val = mv.value
      out[name] = (mv.is_value_set, val, m.outcome.name, m.marginal)
    return out

  def compare(state, when):
    for name, d in zip(names, decls):
      m = state.running_phase_state.measurements[name]
      mo = model[name]
      mv = m.measured_value
      if d['dims'] == 0:
        if mv.is_value_set != mo['set']:
          problems.append(('C06/value/set-flag', '%s %s: is_value_set=%s model=%s' % (when, name, mv.is_value_set, mo['set'])))
          continue
        if mo['set']:
          if not same(mv.value, mo['value']):
            problems.append(('C06/value/recorded-value', '%s %s: recorded %r, model %r (transform %r)' % (when, name, mv.value, mo['value'], d['transform'])))
          exp, marg_possible, _ = evaluate(d, mo['value'], cond_active)
          if m.outcome.name != exp:
            problems.append(('C06/outcome/%s-expected-%s' % (m.outcome.name, exp), '%s %s: outcome %s, validators on %r say %s' % (when, name, m.outcome.name, mo['value'], exp)))
          if m.marginal and not (exp == 'PASS' and marg_possible):
            problems.append(('C06/marginal/stale-or-spurious', '%s %s: marginal=True but outcome %s / no validator deems %r marginal' % (when, name, exp, mo['value'])))
        else:
          if m.outcome.name != 'UNSET' or m.marginal:
            problems.append(('C06/outcome/unset', '%s %s: never assigned but outcome %s marginal %s' % (when, name, m.outcome.name, m.marginal)))
      else:
        rows = mv.value if mv.is_value_set else []
        exp_rows = [tuple(c) + (v,) for c, v in mo['rows']]
        if not same([tuple(x) for x in rows], exp_rows):
          problems.append(('C06/value/dimensioned-rows', '%s %s: rows %r, model %r' % (when, name, rows, exp_rows)))
        if not mo['rows'] and m.outcome.name != 'UNSET':
          problems.append(('C06/outcome/unset', '%s %s: no coordinate assigned but outcome %s' % (when, name, m.outcome.name)))
        if mo['rows'] and m.outcome.name not in ('PARTIALLY_SET',):
          problems.append(('C06/outcome/dimensioned-during-phase', '%s %s: outcome %s while the phase is running' % (when, name, m.outcome.name)))

  def body(state):
    test = state.test_api
    for k, op in enumerate(case['ops']):
      kind = op[0]
      before = snapshot(state)
      raised = None
      expect_reject = False
      try:
        if kind == 'set':
          name = names[op[1] % len(names)]
          d = decls[op[1] % len(names)]
          v = dec(op[2])
          if d['dims']:
            expect_reject = True
            test.measurements[name] = v
          else:
            try:
              tv = model_transform(d['transform'], v)
              transform_ok = True
            except Exception:  # pylint: disable=broad-except
              transform_ok = False
            if not transform_ok:
              expect_reject = True
              test.measurements[name] = v
            else:
              mo = model[name]
              if mo['set']:
                flags['override'] = True
              mo['set'], mo['value'] = True, tv
              flags['any_set'] = True
              _, _, will_raise = evaluate(d, tv, cond_active)
              mo['raised'] = will_raise
              _Rec.seen = []
              try:
                if op[1] % 2:
                  setattr(test.measurements, name, v)
                else:
                  test.measurements[name] = v
                if will_raise:
                  problems.append(('C06/raising-validator-not-surfaced', 'op %d: validator raises on %r but the assignment returned normally' % (k, tv)))
              except ValidatorBoom:
                if not will_raise:
                  raise
              except Exception as e:  # pylint: disable=broad-except
                if not will_raise:
                  raise
              for c in _Rec.seen:  # every validator consulted by this assignment saw the recorded (transformed) value
                if c[0] == 'thr' and not same(c[2], tv):
                  problems.append(('C06/validator-saw-wrong-value', 'op %d: a validator was given %r, the recorded value is %r' % (k, c[2], tv)))
        elif kind == 'setc':
          name = names[op[1] % len(names)]
          d = decls[op[1] % len(names)]
          coords = dec(op[2])
          v = dec(op[3])
          if d['dims'] == 0:
            # indexing a scalar measurement: whatever happens, it must not change the measurement
            expect_reject = True
            test.measurements[name][coords] = v
          else:
            ncoord = 1 if isinstance(coords, str) or not hasattr(coords, '__len__') else len(coords)
            hashable = True
            try:
              hash(coords if d['dims'] > 1 else (coords,))
            except TypeError:
              hashable = False
            transform_ok = True
            try:
              tv = model_transform(d['transform'], v)
            except Exception:  # pylint: disable=broad-except
              transform_ok = False
            if ncoord != d['dims'] or not hashable:
              expect_reject = True
              test.measurements[name][coords] = v
            elif not transform_ok:
              expect_reject = 'transform'
              test.measurements[name][coords] = v
            else:
              key = tuple(coords) if d['dims'] > 1 else (coords,)
              mo = model[name]
              for row in mo['rows']:
                if row[0] == key:
                  row[1] = tv
                  flags['override'] = True
                  break
              else:
                mo['rows'].append([key, tv])
              flags['any_set'] = True
              test.measurements[name][coords] = v
        elif kind == 'set_undeclared':
          expect_reject = True
          test.measurements['nope_%d' % op[1]] = dec(op[2])
        elif kind == 'read':
          name = names[op[1] % len(names)]
          d = decls[op[1] % len(names)]
          mo = model[name]
          if d['dims'] == 0:
            try:
              got = test.measurements[name]
              if not mo['set']:
                problems.append(('C06/read-unset-returns', 'op %d: reading unset %s returned %r' % (k, name, got)))
              elif not same(got, mo['value']):
                problems.append(('C06/value/read-back', 'op %d: read %r, model %r' % (k, got, mo['value'])))
            except Exception as e:  # pylint: disable=broad-except
              if mo['set']:
                problems.append(('C06/value/read-back', 'op %d: reading set %s raised %r' % (k, name, e)))
          else:
            got = dict(test.measurements[name])
            exp = {row[0]: row[1] for row in mo['rows']}
            if not same(sorted(map(repr, got.items())), sorted(map(repr, exp.items()))):
              problems.append(('C06/value/read-back', 'op %d: read %r, model %r' % (k, got, exp)))
      except Exception as e:  # pylint: disable=broad-except
        raised = e
      if expect_reject:
        if raised is None:
          problems.append(('C06/rejected-op-accepted/%s' % kind, 'op %d %r did not raise' % (k, op)))
        after = snapshot(state)
        if expect_reject is True and not all(same(list(after[n]), list(before[n])) for n in names):
          problems.append(('C06/rejected-op-changed-state/%s' % kind, 'op %d %r raised %r but changed %r -> %r' % (k, op, raised, before, after)))
        if flags['any_set']:
          flags['reject_after_set'] = True
      elif raised is not None:
        problems.append(('C06/valid-op-raised/%s' % kind, 'op %d %r raised %r' % (k, op, raised)))
      compare(state, 'after op %d %r' % (k, op))

  body.__name__ = 'put'
  put = htf.PhaseOptions(requires_state=True)(htf.measures(*measurements)(body))
  test = htf.Test(first, put)
  final = []
  test.add_output_callbacks(final.append)
  _Rec.seen = []
  try:
    test.execute()
  except Exception as e:  # pylint: disable=broad-except
    r.bad('C06/execute-raised', repr(e))
    return r
  rec = final[0]
  for sig, detail in problems:
    r.bad(sig, detail)
  prec = [p for p in rec.phases if p.name == 'put']
  if len(prec) != 1:
    r.bad('C06/no-phase-record', 'records %r' % ([p.name for p in rec.phases],))
    return r
  prec = prec[0]
  body_failed = type(prec.result.phase_result).__name__ == 'ExceptionInfo'
  dim_raises = False
  for name, d in zip(names, decls):
    m = prec.measurements[name]
    mo = model[name]
    if m.outcome.name == 'PARTIALLY_SET':
      r.bad('C06/final/partially-set', '%s left the phase PARTIALLY_SET' % name)
      continue
    if d['dims'] == 0:
      exp = 'UNSET'
      if mo['set']:
        exp, marg_possible, _ = evaluate(d, mo['value'], cond_active)
        if m.marginal and not (exp == 'PASS' and marg_possible):
          r.bad('C06/marginal/stale-or-spurious', 'final %s: marginal=True, outcome %s, value %r' % (name, exp, mo['value']))
      if m.outcome.name != exp:
        r.bad('C06/final/outcome-%s-expected-%s' % (m.outcome.name, exp), 'final %s: value %r' % (name, mo['value'] if mo['set'] else None))
    else:
      if not mo['rows']:
        exp = 'UNSET'
      else:
        rows = [row[0] + (row[1],) for row in mo['rows']]
        exp, _, raised = evaluate(d, rows, cond_active)
        dim_raises = dim_raises or raised
      if m.outcome.name != exp:
        r.bad('C06/final/outcome-%s-expected-%s' % (m.outcome.name, exp), 'final %s (dimensioned): rows %r' % (name, mo['rows']))
  if dim_raises and not body_failed:
    r.bad('C06/final/dimensioned-validator-exception-lost', 'a dimensioned validator raised at phase end but the phase result is %r' % (prec.result.phase_result,))
  cond_applicable = any(res in cond_active for d in decls for res, _ in d['cond'])
  r.nontrivial = flags['override'] or flags['reject_after_set'] or cond_applicable
  r.classes = (['override'] if flags['override'] else []) + (['reject-after-set'] if flags['reject_after_set'] else []) + (
      ['cond-applicable'] if cond_applicable else []) + ['dims:%d' % d['dims'] for d in decls] + (
          ['transform'] if any(d['transform'] for d in decls) else []) + ['ops:%d' % min(len(case['ops']) // 5 * 5, 25)]
  return r


# ------------------------------------------------------------------ generators
VALUES = st.one_of(
    st.integers(-20, 120), st.sampled_from([0, 1, 5, 9, 10, 11, 50, 100]), st.floats(-20, 120, allow_nan=False),
    st.sampled_from([float('nan'), float('inf'), -float('inf'), -0.0, 0.0, None, True, False, 10**30, 'abc', '5', '']),
    st.sampled_from([9.5, 10.0, 9.999999, 0.5, 4.5, 95, 105, 90, 110]))


@st.composite
def vspecs(draw, dims):
  k = draw(st.sampled_from(['in_range', 'in_range', 'in_range_m', 'equals', 'regex', 'within_percent', 'thr', 'thr', 'raises'] + (['len'] if dims else [])))
  if k == 'in_range':
    lo = draw(st.sampled_from([None, 0, 1, 5]))
    hi = draw(st.sampled_from([None, 10, 50, 100])) if lo is not None else draw(st.sampled_from([10, 50, 100]))
    return ['in_range', enc(lo), enc(hi), None, None]
  if k == 'in_range_m':
    return ['in_range', 0, 10, draw(st.sampled_from([None, 1, 2])), draw(st.sampled_from([9, 8, 9.5]))]
  if k == 'equals':
    return ['equals', enc(draw(st.sampled_from([5, 10, 'abc', '5', None, True])))]
  if k == 'regex':
    return ['regex', draw(st.sampled_from([r'\d+', 'abc', r'^1', r'5$', 's:']))]
  if k == 'within_percent':
    return ['within_percent', 100, 10, draw(st.sampled_from([None, 5]))]
  if k == 'thr':
    return ['thr', enc(draw(st.sampled_from([0, 5, 10])))]
  if k == 'len':
    return ['len', draw(st.integers(1, 3))]
  return ['raises']


@st.composite
def decl(draw):
  dims = draw(st.sampled_from([0, 0, 0, 1, 2]))
  nv = draw(st.sampled_from([0, 1, 1, 2, 3]))
  vals = [draw(vspecs(dims)) for _ in range(nv)]
  transform = draw(st.sampled_from([None, None, None, ['prec', 0], ['prec', 1], ['prec', -1], ['mul', 2], ['mul', 100], ['str']]))
  cond = []
  for _ in range(draw(st.sampled_from([0, 0, 1, 2]))):
    cond.append([draw(st.integers(0, 3)), draw(vspecs(dims))])
  return {'dims': dims, 'validators': vals, 'transform': transform, 'cond': cond}


COORDS = st.one_of(st.integers(0, 3), st.sampled_from(['a', 'b', 1.5, True, None]),
                   st.tuples(st.integers(0, 2), st.integers(0, 2)).map(list),
                   st.tuples(st.integers(0, 2), st.sampled_from(['x', 'y'])).map(list),
                   st.sampled_from([[1, 2, 3], [[1], 2], [], [0]]))


def _coords_enc(c):
  # JSON lists stand for tuples; a literal unhashable list coordinate is tagged
  return c


@st.composite
def ops(draw):
  kind = draw(st.sampled_from(['set', 'set', 'set', 'setc', 'setc', 'setc', 'set_undeclared', 'read', 'read', 'setc_unhashable']))
  mi = draw(st.integers(0, 2))
  if kind == 'set':
    return ['set', mi, enc(draw(VALUES))]
  if kind == 'setc':
    c = draw(COORDS)
    return ['setc', mi, enc(tuple(c)) if isinstance(c, list) else enc(c), enc(draw(VALUES))]
  if kind == 'setc_unhashable':
    return ['setc', mi, enc(draw(st.sampled_from([[1, 2], [0, [1]], [[0], 1]]))), enc(draw(VALUES))]
  if kind == 'set_undeclared':
    return ['set_undeclared', mi, enc(draw(VALUES))]
  return ['read', mi]


# values that sit in a marginal band, pass plainly, fail, or make a numeric validator raise: overrides between these
# classes are where stale state (marginal flag, outcome, cached value) would show
BURST_VALUES = [9.5, 9, 10, 0.5, 1, 0, 5, 11, -1, 95, 105, 100, 'abc', '5', None, float('nan'), True]


@st.composite
def burst(draw):
  """2-4 consecutive assignments to the same scalar measurement."""
  mi = draw(st.integers(0, 2))
  return [['set', mi, enc(v)] for v in draw(st.lists(st.sampled_from(BURST_VALUES), min_size=2, max_size=4))]


@st.composite
def dim_burst(draw, meas):
  """One valid coordinate assigned to every dimensioned measurement of the phase, in declaration order (what a sweep phase
  does): end-of-phase validation then has several measurements to go through."""
  out = []
  for i, d in enumerate(meas):
    if d['dims']:
      c = draw(st.integers(0, 2)) if d['dims'] == 1 else (draw(st.integers(0, 2)), draw(st.integers(0, 1)))
      out.append(['setc', i, enc(c), enc(draw(st.sampled_from([5, 11, 0.5, 9.5, 95, 'abc'])))])
  return out


@st.composite
def cases(draw):
  n = draw(st.integers(1, 25))
  meas = draw(st.lists(decl(), min_size=1, max_size=3))
  chunk = st.one_of(ops().map(lambda o: [o]), ops().map(lambda o: [o]), ops().map(lambda o: [o]), burst(), dim_burst(meas))
  chunks = draw(st.lists(chunk, min_size=1, max_size=n))
  flat = [o for c in chunks for o in c][:25]
  return {'meas': meas,
          'diag': sorted(draw(st.sets(st.integers(0, 3), max_size=3))),
          'internal': sorted(draw(st.sets(st.integers(0, 3), max_size=2))),
          'ops': flat,
          'allow_unset': draw(st.booleans())}



# ------------------------------------------------------------------ an assignment cut short by the kill of its thread
KILL_SCRIPTS = {
    # name: ops of the body; ('dv', 1, 5) = dv[1] = 5; ('sv', 5) = sv = 5
    'dim-validated-first': [('dv', 1, 5)],
    'dim-plain-first': [('dp', 1, 5)],
    'dim-plain-second': [('dp', 1, 5), ('dp', 2, 6)],
    'dim-validated-second-fails': [('dv', 1, 5), ('dv', 2, 50)],
    'scalar-validated-pass': [('sv', 5)],
    'scalar-validated-fail': [('sv', 50)],
    'scalar-plain': [('sp', 5)],
    'scalar-override-fails': [('sv', 5), ('sv', 50)],
}
KILL_FUNCS = ('__setitem__', '__setattr__', 'set', 'notify_value_set', 'validate', '_set_measurement_outcome', 'notify_update', 'value',
              'is_value_set', '_maybe_validate', 'notify')


def killed_case(case):
  """case = {'script': name, 'by': 'timeout'|'monitor', 'plan': {k: ['stall', s]}}"""
  def fn(s):
    from vf import vmode  # pylint: disable=g-import-not-at-top
    htf = ohtf.reset_case(cancel_timeout_s=0.5, plug_teardown_timeout_s=0.5, allow_unset_measurements=True)
    vmode.quiet_logging()
    ops_ = KILL_SCRIPTS[case['script']]

    @htf.PhaseOptions(timeout_s=1.0)
    @htf.measures(htf.Measurement('dv').with_dimensions('x').with_validator(lambda rows: all(r[-1] < 10 for r in rows)),
                  htf.Measurement('dp').with_dimensions('x'),
                  htf.Measurement('sv').in_range(0, 10),
                  htf.Measurement('sp'))
    def put(test):
      s.events.append(('put-start', s.k, s.me().idx))
      s.sleep(0.5)
      for op in ops_:
        if len(op) == 3:
          test.measurements[op[0]][op[1]] = op[2]
        else:
          test.measurements[op[0]] = op[1]
      s.events.append(('put-end', s.k, s.me().idx))

    test = htf.Test(put)
    got = []
    test.add_output_callbacks(got.append)
    test.execute()
    rec = got[0]
    out = {}
    for p in rec.phases:
      if p.name == 'put':
        for name, m in p.measurements.items():
          mv = m.measured_value
          if m.dimensions:
            rows = [tuple(r) for r in mv.value] if mv.is_value_set else []
          else:
            rows = [mv.value] if mv.is_value_set else []
          out[name] = (m.outcome.name, rows)
    return {'meas': out, 'outcome': rec.outcome.name, 'phases': [(p.name, p.outcome.name) for p in rec.phases]}

  return fn


def check_killed(case):
  from vf import vmode  # pylint: disable=g-import-not-at-top
  r = CaseResult()
  plan_ = {int(k): v for k, v in (case.get('plan') or {}).items()}
  s, res, exc = vmode.run(killed_case(case), plan=plan_, time_limit=1e5, watchdog_s=20.0, trace=bool(case.get('trace')), max_steps=60000)
  r.classes = ['killed-assignment', 'script:' + case['script'], 'stalled' if plan_ else 'baseline']
  r.nontrivial = bool(plan_)
  if s.failure is not None:
    if s.failure[0] in ('deadlock', 'steplimit'):
      r.bad('C06/killed-assignment/hang', '%s plan=%r: %s' % (case['script'], case.get('plan'), s.failure[1][:400]))
      return r, s
    raise RuntimeError('scheduler failure: %r' % (s.failure,))
  if exc is not None:
    r.bad('C06/killed-assignment/execute-raised/%s' % type(exc).__name__, '%s plan=%r: %r' % (case['script'], case.get('plan'), exc))
    return r, s
  accept = {'dv': lambda rows: all(x[-1] < 10 for x in rows), 'dp': lambda rows: True, 'sv': lambda rows: 0 <= rows[0] <= 10, 'sp': lambda rows: True}
  for name, (outcome, rows) in sorted(res['meas'].items()):
    where = '%s plan=%r: measurement %s outcome %s recorded %r' % (case['script'], case.get('plan'), name, outcome, rows)
    if outcome == 'PARTIALLY_SET':
      r.bad('C06/killed-assignment/left-PARTIALLY_SET', where)
    elif not rows and outcome != 'UNSET':
      r.bad('C06/killed-assignment/%s-with-nothing-recorded' % outcome, where + ' (the record holds no value for it, yet it is not UNSET)')
    elif rows and outcome == 'UNSET':
      r.bad('C06/killed-assignment/UNSET-with-recorded-value', where + ' (a value is in the record, yet the outcome says it was never assigned)')
    elif rows and outcome != ('PASS' if accept[name](rows) else 'FAIL'):
      r.bad('C06/killed-assignment/outcome-contradicts-recorded-value', where)
    r.classes.append('%s:%s' % (name, outcome))
  return r, s


def killed_sweep_setup_only():
  from vf import vmode  # pylint: disable=g-import-not-at-top
  from vf import vsched as V  # pylint: disable=g-import-not-at-top
  from openhtf.core import measurements, test_state  # pylint: disable=g-import-not-at-top
  vmode.setup()
  V.monitor_lines(vmode.executor_code_objects() + V.code_objects_of(
      measurements.Collection, measurements.Measurement, measurements.MeasuredValue, measurements.DimensionedMeasuredValue,
      test_state.TestState.notify_update, test_state.PhaseState._finalize_measurements))
  if not _KWARM:
    _KWARM.append(1)
    check_killed({'killed': 1, 'script': 'scalar-plain'})     # warm-up: one-time initialisation lines shift yield indices


_KWARM = []


def killed_sweep(script, acct, known):
  killed_sweep_setup_only()

  def record(case, r):
    acct.case(case, r.nontrivial, r.classes)
    for sig, detail in r.violations:
      (acct.known if sig in known else acct.violation)(sig, case, detail)

  base = {'killed': 1, 'script': script}
  r0, s0 = check_killed(dict(base, trace=True))
  record(base, r0)
  body = [e for e in s0.events if e[0] == 'put-start']
  ends = [e for e in s0.events if e[0] == 'put-end']
  if not body or not ends:
    return
  bt, k0, k1 = body[0][2], body[0][1], ends[0][1]
  # the phase thread is descheduled past its deadline (1 s) at every line it executes between its first assignment and
  # the end of its body: the executor abandons it there, finalizes the phase, and the kill reaches it when it resumes
  pts = [k for k, tidx, tag in s0.tags if tidx == bt and k0 < k <= k1 and tag and tag[0] == 'line']
  for k in pts:
    case = dict(base, plan={str(k): ['stall', 2.0]})
    r, _ = check_killed(case)
    record(case, r)
  acct.exhaustive_parts.append('killed assignment %s: phase thread stalled past its deadline at every one of %d lines of its assignments' % (script, len(pts)))


def plan(tier, seed):
  n = 600 if tier == 'quick' else 9000
  jobs = [{'kind': 'killed', 'name': 'killed.' + k, 'script': k} for k in sorted(KILL_SCRIPTS)]
  return jobs + [{'kind': 'hyp', 'name': 'hyp%d' % i, 'hseed': seed * 1000 + i, 'n': n} for i in range(16)]


def run_job(job, acct):
  known = set(job.get('known', ()))
  if job['kind'] == '_regress':
    from vf import runner  # pylint: disable=g-import-not-at-top
    runner.run_regress(sys.modules[__name__], job, acct)
    return
  if job['kind'] == 'killed':
    killed_sweep(job['script'], acct, known)
    return
  hyp.search(acct, cases(), check, seed=job['hseed'], max_examples=job['n'], known=known)


def replay(case):
  if case.get('killed'):
    killed_sweep_setup_only()
    return check_killed(case)[0].violations
  return check(case).violations
