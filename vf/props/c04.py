"""C04 - operator abort: run ends ABORTED, nothing new starts, no deadlock (deterministic scheduler)."""
import json
import os
import signal
import sys
import threading as real_threading

from hypothesis import strategies as st

from vf import hyp
from vf import ohtf
from vf import vmode
from vf import vsched as V
from vf.hyp import CaseResult

ID = 'C04'
LEVEL = 'exploration'
ENGINE = 'vsched'
RULE = ('Program templates (test_start present/absent; plain phases; group with setup/main/teardown; nested groups; subtest; '
        'force_repeat and REPEAT phases; bodies that return at once, sleep (killable), block until killed, swallow the '
        'termination error once, or stay stuck for ever whatever is raised in them; cancel_timeout_s in {0, 0.5, 2}) x {one abort, two aborts} x arrival via abort_from_sig_int() from a helper thread or via '
        'Test.handle_sig_int injected as a signal handler on the thread running execute() (at any line of execute(), while parked '
        'in wait(), during finalisation).  For every template the fault-free run is traced (N line-level yield points in '
        'Test.execute, TestExecutor, PhaseExecutor, KillableThread) and the abort is injected at EVERY yield point k in [0,N) (quick: '
        'every template with stride, thorough: all); two aborts (k1<k2) and abort + one extra preemption are sampled.  Oracle = '
        'invariants on the event log and the final record: execute() returns (the scheduler reports a hang with the wait-for '
        'state otherwise); once an abort call has returned no test_start/setup/main body starts; teardown phases of groups whose '
        'main had started and plug tearDown still run (unless a second abort); an abort that returned before plug tearDown began '
        'gives outcome ABORTED, and an aborted run is never PASS; every output callback is called exactly once; two killable '
        'bodies of one test never overlap; no body starts after the record was handed to the callbacks.  Non-trivial = the abort '
        'landed strictly inside the run (after the executor was created, before finalisation); distinct by (template, injection points).  '
        'Plus REAL signals (the scheduler replaces Thread.join and models delivery, so it cannot see the interpreter\'s own behaviour): '
        '20 enumerated cases {first SIGINT of the process (handler raises KeyboardInterrupt) or not} x {body of a main / teardown / '
        'test_start phase} x delay x {one, two SIGINTs}, each in a forked child with real threads and os.kill; timing-independent '
        'oracle: execute() returns False or re-raises KeyboardInterrupt, one callback with a finalized ABORTED record, after plug '
        'tearDown (and after the teardown phases for a single abort), nothing of the run continues after execute() is over.  Template stuck-timeout: the stuck phase has a timeout_s of its own; execute() returns within 10 virtual seconds of the abort call returning (the abort call itself waits cancel_timeout_s).')
ASSUMPTIONS = ['In the scheduled part signal delivery is modelled: the handler runs on the execute() thread at its next yield point or interrupts its wait; '
               'the real-signal part covers only delivery while execute() waits (>=50 ms after a body started).',
               'Bodies that swallow ThreadTerminationError and keep running are excluded from the overlap invariant (they outlive their phase by construction); '
               'bodies that need clean-up time shorter than cancel_timeout_s after the kill (template slow-exit) are included: the executor waits for them.',
               'A body that ran into its own phase timeout (180 virtual seconds) is abandoned by design (C12) and not counted as overlapping.',
               'With cancel_timeout_s=0 the operator configured that a cancelled body is not waited for: the overlap invariant is not applied to those cases (all other invariants are).']

FOCUS_TEMPLATES = ('plain3', 'start+plain', 'group', 'subtest')
TEMPLATES = ['plain3', 'start+plain', 'group', 'group-setup-blocks', 'nested', 'subtest', 'force-repeat', 'repeat-result', 'teardown-blocks', 'swallow', 'start-blocks', 'two-groups', 'slow-exit']
# cancel_timeout_s is a configuration key: (template, value) pairs swept in addition (default in the sweeps above: 2 s)
CANCEL_VARIANTS = [('stuck', 0), ('stuck', 0.5), ('stuck', 2), ('group', 0), ('teardown-blocks', 0), ('swallow', 0), ('stuck-timeout', 0.5), ('stuck-timeout', 2)]
UNKILLABLE = ('swallow', 'stuck', 'stuck-timeout')


def _spawn(fn, name):
  t = real_threading.Thread(target=fn, name=name)
  t.daemon = True
  t.start()
  return t


def build(template, htf, s, log):
  """Returns (nodes, test_start)."""
  from openhtf.util import threads  # pylint: disable=g-import-not-at-top

  def mk(name, role, kind='quick', result=None, **opts):
    def work():
      if kind == 'sleep':
        for _ in range(50):   # killable: an asynchronous exception is delivered between the short sleeps
          s.sleep(0.1)
      elif kind == 'block':
        while True:       # blocks "forever" but wakes once per virtual second so that a kill can be delivered
          s.sleep(1.0)
      elif kind == 'slow-exit':
        try:
          while True:
            s.sleep(0.25)
        except threads.ThreadTerminationError:
          s.sleep(1.0)    # clean-up: with the <=0.25 s until the kill is noticed well below cancel_timeout_s (2 s)
          raise
      elif kind == 'stuck':
        while True:       # blocked in a call no asynchronous exception gets through to; never ends by itself
          try:
            s.sleep(1e7)
          except threads.ThreadTerminationError:
            log.append(('swallowed', name, role, s.k))
      elif kind == 'swallow':
        try:
          s.sleep(5.0)
        except threads.ThreadTerminationError:
          log.append(('swallowed', name, role, s.k))
          s.sleep(1.0)
      else:
        s.yield_point('body')

    def body(test):
      log.append(('start', name, role, s.k))
      try:
        work()
      except threads.ThreadTerminationError:
        log.append(('terminated', name, role, s.k))
        raise
      finally:
        log.append(('end', name, role, s.k))
      return result

    body.__name__ = name
    p = htf.PhaseDescriptor.wrap_or_copy(body)
    if opts:
      p = htf.PhaseOptions(**opts)(p)
    return p

  ts = None
  G = htf.PhaseGroup
  if template == 'plain3':
    nodes = [mk('a', 'main', 'sleep'), mk('b', 'main'), mk('c', 'main', 'sleep')]
  elif template == 'start+plain':
    ts = mk('ts', 'test_start', 'sleep')
    nodes = [mk('a', 'main'), mk('b', 'main', 'sleep')]
  elif template == 'start-blocks':
    ts = mk('ts', 'test_start', 'block')
    nodes = [mk('a', 'main')]
  elif template == 'group':
    nodes = [G(setup=[mk('s1', 'setup')], main=[mk('m1', 'main', 'sleep'), mk('m2', 'main')], teardown=[mk('t1', 'teardown', 'sleep'), mk('t2', 'teardown')]),
             mk('after', 'main')]
  elif template == 'group-setup-blocks':
    nodes = [G(setup=[mk('s1', 'setup', 'block')], main=[mk('m1', 'main')], teardown=[mk('t1', 'teardown')]), mk('after', 'main')]
  elif template == 'nested':
    inner = G(setup=[mk('is', 'setup')], main=[mk('im', 'main', 'block')], teardown=[mk('it', 'teardown')])
    nodes = [G(main=[mk('m1', 'main'), inner, mk('m2', 'main')], teardown=[mk('t1', 'teardown', 'sleep')])]
  elif template == 'subtest':
    nodes = [htf.Subtest('sub', mk('a', 'main', 'sleep'), G(main=[mk('m', 'main', 'sleep')], teardown=[mk('t', 'teardown')])), mk('after', 'main')]
  elif template == 'force-repeat':
    nodes = [mk('r', 'main', 'sleep', force_repeat=True, repeat_limit=3), mk('after', 'main')]
  elif template == 'repeat-result':
    nodes = [mk('r', 'main', 'sleep', result=htf.PhaseResult.REPEAT, repeat_limit=3), mk('after', 'main')]
  elif template == 'teardown-blocks':
    nodes = [G(main=[mk('m1', 'main')], teardown=[mk('t1', 'teardown', 'block'), mk('t2', 'teardown')])]
  elif template == 'swallow':
    nodes = [G(main=[mk('m1', 'main', 'swallow'), mk('m2', 'main')], teardown=[mk('t1', 'teardown')])]
  elif template == 'stuck':
    nodes = [G(main=[mk('m1', 'main', 'stuck'), mk('m2', 'main')], teardown=[mk('t1', 'teardown')]), mk('after', 'main')]
  elif template == 'stuck-timeout':
    # the same with a timeout of its own on the stuck phase: an abort is not a reason to wait for that timeout
    nodes = [G(main=[mk('m1', 'main', 'stuck', timeout_s=600), mk('m2', 'main')], teardown=[mk('t1', 'teardown')]), mk('after', 'main')]
  elif template == 'slow-exit':
    nodes = [G(main=[mk('m1', 'main', 'slow-exit'), mk('m2', 'main')], teardown=[mk('t1', 'teardown')]), mk('after', 'main')]
  elif template == 'two-groups':
    nodes = [G(main=[mk('m1', 'main', 'sleep')], teardown=[mk('t1', 'teardown')]), G(setup=[mk('s2', 'setup', 'sleep')], main=[mk('m2', 'main')], teardown=[mk('t2', 'teardown')])]
  else:
    raise ValueError(template)
  return nodes, ts


def where_in_execute():
  """Source text of the line of Test.execute() that the signal interrupted (None if not inside execute())."""
  import linecache  # pylint: disable=g-import-not-at-top
  f = sys._getframe(1)  # pylint: disable=protected-access
  while f is not None:
    if f.f_code.co_name == 'execute' and f.f_code.co_filename.endswith('test_descriptor.py'):
      # region of execute(): before its first wait() / waiting / finalization (after the second wait())
      lines = linecache.getlines(f.f_code.co_filename)
      waits = [i + 1 for i, l in enumerate(lines) if l.strip() == 'self._executor.wait()' and
               f.f_code.co_firstlineno <= i + 1]
      waits = [w for w in waits if w <= f.f_code.co_firstlineno + 200][:2]
      if len(waits) == 2:
        if f.f_lineno < waits[0]:   # includes the `try:` line itself: its line event precedes entering the try block
          return 'before-wait'
        if f.f_lineno > waits[1] + 1:
          return 'finalization'
        return 'wait'
      return 'execute:' + linecache.getline(f.f_code.co_filename, f.f_lineno).strip()[:40]
    f = f.f_back
  return None


def innermost_openhtf_function():
  """Name of the innermost openhtf function the signal interrupted."""
  f = sys._getframe(1)  # pylint: disable=protected-access
  skip = True
  while f is not None:
    fn = f.f_code.co_filename
    if '/openhtf/' in fn and not skip:
      return f.f_code.co_name
    if f.f_code.co_name == 'handler' and fn.endswith('c04.py'):
      skip = False
    f = f.f_back
  return None


def abort_case(case):
  """case = {'template': str, 'via': 'thread'|'signal', 'plan': {k: choice}} (abort injections are part of the plan)."""
  def fn(s):
    htf = ohtf.reset_case(cancel_timeout_s=case.get('cancel', 2), plug_teardown_timeout_s=1)
    vmode.quiet_logging()

    class TimedLog(list):
      def __init__(self):
        super(TimedLog, self).__init__()
        self.times = []

      def append(self, item):
        self.times.append(s.now)
        super(TimedLog, self).append(item)

    log = TimedLog()

    class P(htf.plugs.BasePlug):
      def __init__(self):
        log.append(('plug-ctor', s.k))

      def tearDown(self):
        log.append(('plug-td', s.k))

    class Driver(htf.plugs.BasePlug):
      """tearDown bound on the instance (forwarded to the wrapped driver), none on the class."""

      def __init__(self):
        self.tearDown = lambda: log.append(('plug-td-instance', s.k))

    nodes, ts = build(case['template'], htf, s, log)
    marker = htf.plug(p=P, drv=Driver)(lambda test, p, drv: None)
    marker.func.__name__ = 'marker'
    test = htf.Test(*(nodes + [htf.PhaseGroup(teardown=[marker])]))
    cbs = []
    test.add_output_callbacks(lambda rec: (cbs.append(rec), log.append(('callback', s.k))))
    htf.Test.DEFAULT_SIGINT_HANDLER = staticmethod(lambda *a: (_ for _ in ()).throw(KeyboardInterrupt()))

    def aborter(i):
      while s.park('aborter%d' % i):
        log.append(('abort-enter', i, s.k, getattr(test, '_executor', None) is not None))
        try:
          test.abort_from_sig_int()
        except Exception as e:  # pylint: disable=broad-except
          log.append(('abort-raised', i, type(e).__name__, repr(e)[:160]))
        log.append(('abort-exit', i, s.k))
        return

    helpers = [_spawn(lambda i=i: aborter(i), 'aborter%d' % i) for i in range(2)] if case['via'] == 'thread' else []

    def handler():
      log.append(('abort-enter', 'sig', s.k, bool(len(htf.Test.TEST_INSTANCES)), where_in_execute(), innermost_openhtf_function()))
      s.events.append(('sig-at',) + log[-1][1:])
      try:
        htf.Test.handle_sig_int(signal.SIGINT, None)
      finally:
        log.append(('abort-exit', 'sig', s.k))

    s.signal_handler = handler
    if case.get('rerun'):
      # the same Test object has completed a run before; the plan (abort injections) applies to the second execution
      test.execute(test_start=ts)
      del log[:]
      del log.times[:]
      del cbs[:]
      off = s.k
      plan2, signals2 = s.deferred
      s.plan = {k + off: v for k, v in plan2.items()}
      s.signals = {k + off: v for k, v in signals2.items()}
    ret, raised = None, None
    exec_kw = {}
    if case.get('profile'):
      import os as _os  # pylint: disable=g-import-not-at-top
      import tempfile as _tf  # pylint: disable=g-import-not-at-top
      exec_kw['profile_filename'] = _os.path.join(_tf.gettempdir(), 'vf_c04_%d.prof' % _os.getpid())    # phases run under cProfile
    try:
      ret = test.execute(test_start=ts, **exec_kw)
    except KeyboardInterrupt:
      raised = 'KeyboardInterrupt'
    finally:
      if exec_kw:
        try:
          _os.remove(exec_kw['profile_filename'])
        except OSError:
          pass
    log.append(('execute-returned', s.k))
    if raised:
      # execute() left without waiting for its executor thread (the listed before-wait finding).  What that thread still
      # does - plug tearDown above all - belongs to the run: let it finish before the log is judged.
      s.signals = {}      # the run is over for its caller: nothing further is injected while the leftovers finish
      s.signals_pending = 0
      s.sleep(30.0)
    incomplete = []
    if cbs:
      rec = cbs[0]
      if rec.outcome is None or rec.end_time_millis is None or not rec.start_time_millis or rec.dut_id is None:
        incomplete.append('record: outcome=%r start=%r end=%r dut_id=%r' % (rec.outcome, rec.start_time_millis, rec.end_time_millis, rec.dut_id))
      for p in rec.phases:
        if p.outcome is None or p.result is None or p.options is None or p.end_time_millis is None:
          incomplete.append('phase %s: outcome=%r result=%r options=%s end=%r' % (p.name, p.outcome, p.result, 'set' if p.options is not None else None, p.end_time_millis))
    return {'ret': ret, 'raised': raised, 'log': list(log), 'times': list(log.times), 'outcome': cbs[0].outcome.name if cbs else None, 'n_cb': len(cbs),
            'records': [(p.name, p.outcome.name) for p in cbs[0].phases] if cbs else [], 'incomplete': incomplete}

  return fn


def run_case(case, trace=False):
  vmode.setup()
  plan, signals = {}, {}
  for k, v in (case.get('plan') or {}).items():
    if v == 'SIGINT':
      signals[int(k)] = 'sigint'
    else:
      plan[int(k)] = v
  if case.get('rerun'):
    s = V.Scheduler(plan={}, signals={}, time_limit=1e5, max_steps=200000, trace=trace)
    s.deferred = (plan, signals)
  else:
    s = V.Scheduler(plan=plan, signals=signals, time_limit=1e5, max_steps=100000, trace=trace)
  fn = abort_case(case)
  res, exc = s.run(lambda: fn(s), watchdog_s=20.0)
  return s, res, exc


def check(case):
  r = CaseResult()
  s, res, exc = run_case(case)
  tag = case['template']
  n_abort_requests = len([1 for v in (case.get('plan') or {}).values() if v == 'SIGINT' or (isinstance(v, list) and v[0] == 'wake')])
  r.classes = ['template:' + tag, 'via:' + case['via'], 'aborts:%d' % n_abort_requests] + (['cancel_timeout_s:%s' % case['cancel']] if 'cancel' in case else []) + (['profiled'] if case.get('profile') else [])
  if s.failure is not None:
    if s.failure[0] in ('deadlock', 'steplimit'):
      locs = [e for e in s.events if e[0] == 'sig-at']
      at = ('/sigint-during:%s/in:%s' % (locs[-1][4], locs[-1][5])) if locs else ''
      r.bad('C04/hang/%s%s' % (s.failure[0], at), '%s plan=%r: %s' % (tag, case.get('plan'), s.failure[1][:600]))
      return r, s
    raise RuntimeError('scheduler failure: %r' % (s.failure,))
  if exc is not None:
    r.bad('C04/execute-raised/%s' % type(exc).__name__, '%s plan=%r: %r' % (tag, case.get('plan'), exc))
    return r, s
  log = res['log']
  pos = {i: e for i, e in enumerate(log)}
  # an abort request from a helper thread that found no executor (the Test was between two execute() calls, or had not
  # created its executor yet) is a documented no-op: it is not an abort of this run and is left out of every invariant
  noop = {e[1] for e in log if e[0] == 'abort-enter' and e[1] != 'sig' and len(e) > 3 and e[3] is False}
  exits = [i for i, e in enumerate(log) if e[0] == 'abort-exit' and e[1] not in noop]
  enters = [i for i, e in enumerate(log) if e[0] == 'abort-enter' and e[1] not in noop]
  if noop:
    r.classes.append('noop-abort-before-executor')
  cb = [i for i, e in enumerate(log) if e[0] == 'callback']
  plug_td = [i for i, e in enumerate(log) if e[0] == 'plug-td']
  starts = [(i, e) for i, e in enumerate(log) if e[0] == 'start']
  inside = bool(enters) and (not cb or enters[0] < cb[0]) and any(e[0] == 'start' for e in log[:enters[0]] or [('start',)])
  r.nontrivial = bool(enters) and (not cb or enters[0] < cb[0])
  where = 'none'
  if enters:
    before = [e for e in log[:enters[0]] if e[0] in ('start', 'end')]
    if not before:
      where = 'before-first-body'
    elif cb and enters[0] > cb[0]:
      where = 'after-callbacks'
    elif before[-1][0] == 'start':
      where = 'inside-' + before[-1][2]
    else:
      where = 'between-phases'
  r.classes.append('where:' + where)
  # a signal that arrives before the test registered itself is handled by the default handler: the run never began
  unregistered = [e for e in log if e[0] == 'abort-enter' and len(e) > 3 and not e[3]]
  if unregistered and res['raised'] and not any(e[0] in ('start', 'plug-ctor') for e in log):
    r.classes.append('abort-before-registration')
    r.nontrivial = False
    return r, s
  # an abort request that arrives before execute() has created its executor finds no running test: a no-op by design
  early = [e for e in log if e[0] == 'abort-enter' and e[1] != 'sig' and len(e) > 3 and e[3] is False]
  if early and not enters and res['outcome'] != 'ABORTED':
    r.classes.append('abort-before-executor')
    r.nontrivial = False
    return r, s
  # "the phase body running at that moment is asked to terminate": a killable non-teardown body that was running when
  # the (first) abort call started and was still running when it returned must have received the termination error
  if enters and exits:
    for i, e in starts:
      still_within_timeout = res['times'][enters[0]] < res['times'][i] + 179.0   # not already abandoned by its phase timeout
      if e[2] in ('test_start', 'setup', 'main') and i < enters[0] and tag not in UNKILLABLE and still_within_timeout:
        ended = [j for j, x in enumerate(log) if x[0] == 'end' and x[1] == e[1] and j > i]
        if not ended or ended[0] > exits[0]:
          if not any(x[0] == 'terminated' and x[1] == e[1] for x in log):
            r.bad('C04/running-body-not-terminated', '%s plan=%r: %s body %r was running during the abort but never received ThreadTerminationError; log=%r' % (
                tag, case.get('plan'), e[2], e[1], log))
            break
  # the abort request itself returns (it is called from signal handlers and UI threads)
  for e in log:
    if e[0] == 'abort-raised':
      r.bad('C04/abort-call-raised/%s' % e[2], '%s plan=%r: abort_from_sig_int() raised %s; log=%r' % (tag, case.get('plan'), e[3], log))
      break
  # O5 callbacks exactly once
  if res['n_cb'] != 1:
    locs = [e[4] for e in log if e[0] == 'abort-enter' and len(e) > 4]
    at = ('/sigint-during:' + str(locs[0]).replace(' ', '')) if locs else ''
    r.bad('C04/callbacks-called-%d-times%s' % (res['n_cb'], at), '%s plan=%r log=%r' % (tag, case.get('plan'), log))
  # O2 nothing new starts once an abort has returned
  if exits:
    for i, e in starts:
      if i > exits[0] and e[2] in ('test_start', 'setup', 'main'):
        r.bad('C04/body-started-after-abort/%s' % e[2], '%s plan=%r: %s body %r started after abort returned; log=%r' % (tag, case.get('plan'), e[2], e[1], log))
        break
  # O8 after the second abort returned no teardown body starts either
  if len(exits) >= 2 and len(enters) >= 2 and enters[1] > exits[0]:   # two *sequential* aborts
    for i, e in starts:
      if i > exits[1]:
        r.bad('C04/body-started-after-second-abort', '%s plan=%r: body %r (%s) started after the second abort returned; log=%r' % (tag, case.get('plan'), e[1], e[2], log))
        break
  # O3 teardown of groups whose main started, and plug tearDown, still run (single abort)
  if len(enters) <= 1:
    if not plug_td and any(e[0] == 'plug-ctor' for e in log):
      r.bad('C04/plug-teardown-skipped', '%s plan=%r log=%r' % (tag, case.get('plan'), log))
    elif plug_td and not any(e[0] == 'plug-td-instance' for e in log):
      r.bad('C04/plug-teardown-skipped/instance-bound', '%s plan=%r: the plug whose tearDown is bound on the instance was not torn down; log=%r' % (
          tag, case.get('plan'), log))
    started = {e[1] for _, e in starts}
    pairs = {'group': [('m1', ['t1', 't2'])], 'nested': [('im', ['it', 't1']), ('m1', ['t1'])], 'subtest': [('m', ['t'])],
             'teardown-blocks': [('m1', ['t1'])], 'swallow': [('m1', ['t1'])], 'stuck': [('m1', ['t1'])], 'stuck-timeout': [('m1', ['t1'])], 'slow-exit': [('m1', ['t1'])], 'two-groups': [('m1', ['t1']), ('m2', ['t2'])]}
    for main_name, tds in pairs.get(tag, []):
      if main_name in started:
        for td in tds:
          if td not in started:
            r.bad('C04/teardown-skipped', '%s plan=%r: main phase %s started but teardown %s never ran; log=%r' % (tag, case.get('plan'), main_name, td, log))
  # O4 outcome
  if exits and plug_td and exits[0] < plug_td[0] and res['outcome'] != 'ABORTED':
    # an abort before the executor exists is a documented no-op
    if any(e[0] == 'start' for e in log[:enters[0]]) or res['outcome'] == 'PASS' and False:
      r.bad('C04/outcome-%s-after-abort' % res['outcome'], '%s plan=%r: abort returned before plug tearDown but outcome is %s; log=%r' % (tag, case.get('plan'), res['outcome'], log))
  if exits and res['outcome'] == 'PASS' and plug_td and exits[0] < plug_td[0] and any(e[0] == 'start' for e in log[:enters[0]]):
    r.bad('C04/pass-after-abort', '%s plan=%r log=%r' % (tag, case.get('plan'), log))
  # the record handed to the callbacks is complete and final (C09's predicate, here under every abort moment)
  for item in res.get('incomplete', []):
    r.bad('C04/incomplete-record/%s' % ('phase-record' if item.startswith('phase') else 'test-record'), '%s plan=%r: %s' % (tag, case.get('plan'), item))
    break
  if res['ret'] is True and res['outcome'] != 'PASS':
    r.bad('C04/return-value', 'execute() returned True with outcome %s' % res['outcome'])
  # O6 overlap of killable bodies
  open_, open_t = None, 0.0
  for i, e in enumerate(log):
    if e[0] == 'start' and tag not in UNKILLABLE and case.get('cancel', 2) > 0:
      if open_ is not None and res['times'][i] >= open_t + 179.0:
        # the open body was not cancelled by an abort but ran into its phase timeout (default 180 s): it is abandoned
        # by design (property C12) and the executor moves on without waiting for it
        r.classes.append('timeout-abandoned')
        open_ = None
      if open_ is not None:
        r.bad('C04/bodies-overlap', '%s plan=%r: %r started while %r was still running; log=%r' % (tag, case.get('plan'), e[1], open_, log))
        break
      open_, open_t = e[1], res['times'][i]
    elif e[0] == 'end' and e[1] == open_:
      open_ = None
  # O9 a body that cannot be cancelled is abandoned once the abort call has waited cancel_timeout_s for it: what is left after
  # the abort returned are quick teardown bodies and plug tearDown (1 s limit), not the stuck phase's own timeout
  if tag in ('stuck', 'stuck-timeout') and exits:
    t_exit = res['times'][exits[-1]]
    t_ret = [res['times'][i] for i, e in enumerate(log) if e[0] == 'execute-returned']
    if t_ret and t_ret[0] > t_exit + 10.0:
      r.bad('C04/execute-delayed-after-abort', '%s plan=%r: the abort call returned at virtual time %.1f, execute() at %.1f; log=%r' % (
          tag, case.get('plan'), t_exit, t_ret[0], log))
  # O7 nothing starts after the record was handed out
  if cb:
    for i, e in starts:
      if i > cb[0]:
        r.bad('C04/body-started-after-finalization', '%s plan=%r: %r; log=%r' % (tag, case.get('plan'), e, log))
        break
  return r, s


# ------------------------------------------------------------------ real SIGINT, real threads, real Thread.join
REAL_CASES = [{'first': first, 'where': where, 'delay_ms': d, 'second_after_ms': second}
              for first in (True, False) for where in ('main', 'teardown', 'test_start') for d in (50, 150)
              for second in (None, 120) if not (second and where == 'test_start')]


def _real_child(case):
  """Runs in a forked child (its only job): one Test, one or two real SIGINTs sent with os.kill. Returns a dict."""
  import os as _os  # pylint: disable=g-import-not-at-top
  import time as _time  # pylint: disable=g-import-not-at-top
  htf = ohtf.reset_case(cancel_timeout_s=2, plug_teardown_timeout_s=5)
  logging_ = __import__('logging')
  logging_.disable(logging_.CRITICAL)
  signal.signal(signal.SIGINT, htf.Test.handle_sig_int)
  htf.Test.DEFAULT_SIGINT_HANDLER = staticmethod(signal.default_int_handler)
  htf.Test.HANDLED_SIGINT_ONCE = not case['first']
  log = []

  def fire():
    _time.sleep(case['delay_ms'] / 1000.0)
    log.append('sigint-1')
    _os.kill(_os.getpid(), signal.SIGINT)
    if case['second_after_ms']:
      _time.sleep(case['second_after_ms'] / 1000.0)
      log.append('sigint-2')
      _os.kill(_os.getpid(), signal.SIGINT)

  def blocking(name, trigger):
    def body(test):
      log.append(name + '-start')
      if trigger:
        real_threading.Thread(target=fire, daemon=True).start()
        for _ in range(300):      # killable: the asynchronous exception is delivered between the short sleeps
          _time.sleep(0.01)
      else:
        _time.sleep(0.05)
      log.append(name + '-end')
    body.__name__ = name
    return body

  class P(htf.plugs.BasePlug):
    def tearDown(self):
      _time.sleep(0.2)
      log.append('plug-td')

  where = case['where']
  main = htf.plug(p=P)(lambda test, p: blocking('main', where == 'main')(test))
  main.func.__name__ = 'main'
  td = blocking('teardown', where == 'teardown')
  td2 = blocking('teardown2', False)
  test = htf.Test(htf.PhaseGroup(main=[main], teardown=[td, td2]))
  got = []
  test.add_output_callbacks(lambda rec: (got.append((rec.outcome.name if rec.outcome else None, rec.end_time_millis is not None)), log.append('callback')))
  ts = htf.PhaseDescriptor.wrap_or_copy(blocking('test_start', True)) if where == 'test_start' else (lambda: 'dut')
  try:
    res = ('returned', test.execute(test_start=ts))
  except BaseException as e:  # pylint: disable=broad-except
    res = ('raised', type(e).__name__, repr(e)[:200])
  t_ret = len(log)
  t_end = _time.time() + 0.8      # anything still running after execute() is over shows up behind this mark
  while _time.time() < t_end:
    try:
      _time.sleep(0.05)
    except KeyboardInterrupt:      # a (second) SIGINT that arrives when no test is registered any more: default handler
      pass
  return {'res': res, 'got': got, 'log': log[:t_ret], 'late': log[t_ret:]}


def check_real(case):
  r = CaseResult()
  rd, wr = os.pipe()
  pid = os.fork()
  if pid == 0:
    try:
      os.close(rd)
      try:
        out = _real_child(case)
      except BaseException as e:  # pylint: disable=broad-except
        out = {'harness_error': repr(e)}
      os.write(wr, json.dumps(out).encode())
    finally:
      os._exit(0)  # pylint: disable=protected-access
  os.close(wr)
  data = b''
  while True:
    chunk = os.read(rd, 65536)
    if not chunk:
      break
    data += chunk
  os.close(rd)
  os.waitpid(pid, 0)
  if not data:
    raise RuntimeError('real SIGINT child produced nothing for %r' % (case,))
  out = json.loads(data.decode())
  if 'harness_error' in out:
    raise RuntimeError('real SIGINT child failed: %s' % out['harness_error'])
  tag = 'real SIGINT %r' % ({k: v for k, v in case.items() if k != 'real'},)
  res, got, log = out['res'], out['got'], out['log']
  ok_results = [['returned', False]] + ([['raised', 'KeyboardInterrupt']] if case['first'] else [])
  if res[:2] not in ok_results:
    r.bad('C04/real/execute-%s' % ('raised/' + res[1] if res[0] == 'raised' else 'returned-%s' % res[1]), '%s: execute() %r; log %r' % (tag, res, log))
  if len(got) != 1:
    r.bad('C04/real/callbacks-called-%d-times' % len(got), '%s: log %r' % (tag, log))
  elif got[0] != ['ABORTED', True]:
    r.bad('C04/real/record-%s' % ('not-finalized' if got[0][0] is None else 'outcome-' + str(got[0][0])), '%s: callback got outcome=%r end_time set=%r; log %r late %r' % (
        tag, got[0][0], got[0][1], log, out['late']))
  if 'callback' in log:
    before = log[:log.index('callback')]
    if 'main-start' in log and 'plug-td' not in before:
      r.bad('C04/real/callback-before-plug-teardown', '%s: log %r late %r' % (tag, log, out['late']))
    if case['where'] == 'main' and not case['second_after_ms'] and 'teardown-end' not in before:
      r.bad('C04/real/callback-before-teardown-phase', '%s: log %r late %r' % (tag, log, out['late']))
  if out['late']:
    r.bad('C04/real/still-running-after-execute', '%s: after execute() was over: %r' % (tag, out['late']))
  r.nontrivial = True
  r.classes = ['real-sigint', 'where:' + case['where'], 'first:%s' % case['first'], 'second:%s' % bool(case['second_after_ms'])]
  return r


def plan(tier, seed):
  q = tier == 'quick'
  jobs = []
  for sh in range(4):
    jobs.append({'kind': 'real', 'name': 'real%d' % sh, 'shard': sh, 'nshards': 4})
  for t in ('group', 'plain3'):
    for via in ('signal', 'thread'):
      jobs.append({'kind': 'sweep', 'name': 'rerun.%s.%s' % (t, via), 'template': t, 'via': via, 'rerun': True, 'stride': 3 if q else 1,
                   'offset': seed % 3 if q else 0, 'pairs': 10 if q else 200, 'seed': seed})
  for ti, t in enumerate(TEMPLATES):
    for via in ('thread', 'signal'):
      jobs.append({'kind': 'sweep', 'name': 'sweep.%s.%s' % (t, via), 'template': t, 'via': via, 'stride': 3 if q else 1, 'offset': seed % 3 if q else 0,
                   'pairs': 40 if q else 600, 'seed': seed})
  for t in ('group', 'plain3'):
    jobs.append({'kind': 'sweep', 'name': 'sweep.%s.profile.thread' % t, 'template': t, 'via': 'thread', 'profile': True, 'stride': 3 if q else 1,
                 'offset': seed % 3 if q else 0, 'pairs': 10 if q else 200, 'seed': seed})
  for t, c in CANCEL_VARIANTS:
    for via in ('thread', 'signal'):
      jobs.append({'kind': 'sweep', 'name': 'sweep.%s.cancel%s.%s' % (t, c, via), 'template': t, 'via': via, 'cancel': c, 'stride': 3 if q else 1,
                   'offset': seed % 3 if q else 0, 'pairs': 10 if q else 200, 'seed': seed})
  return jobs


def setup_lines():
  vmode.setup()
  from openhtf.core import test_state as _ts  # pylint: disable=g-import-not-at-top
  # also what the abort call may compute for its log lines: str(test_state) reads the running phase
  V.monitor_lines(vmode.executor_code_objects() + V.code_objects_of(_ts.TestState.__str__, _ts.TestState.last_run_phase_name))


def run_job(job, acct):
  known = set(job.get('known', ()))
  if job['kind'] == '_regress':
    from vf import runner  # pylint: disable=g-import-not-at-top
    runner.run_regress(sys.modules[__name__], job, acct)
    return
  if job['kind'] == 'real':
    for i, c in enumerate(REAL_CASES):
      if i % job['nshards'] != job['shard']:
        continue
      case = dict(c, real=1)
      r = check_real(case)
      acct.case(case, r.nontrivial, r.classes)
      for sig, detail in r.violations:
        (acct.known if sig in known else acct.violation)(sig, case, detail)
    return
  setup_lines()

  def record(case, r):
    acct.case(case, r.nontrivial, r.classes)
    for sig, detail in r.violations:
      (acct.known if sig in known else acct.violation)(sig, case, detail)

  base = {'template': job['template'], 'via': job['via'], 'plan': {}}
  if job.get('rerun'):
    base['rerun'] = True
  if 'cancel' in job:
    base['cancel'] = job['cancel']
  if job.get('profile'):
    base['profile'] = True
  r0, s0 = check(base)
  record(base, r0)
  n = s0.k
  if job.get('rerun'):
    n = s0.k // 2 + 50      # plan indices are relative to the start of the second execution
  inj1 = ['wake', 'aborter0'] if job['via'] == 'thread' else 'SIGINT'
  inj2 = ['wake', 'aborter1'] if job['via'] == 'thread' else 'SIGINT'
  ks = list(range(job['offset'], n, job['stride']))
  for k in ks:
    case = dict(base, plan={str(k): inj1})
    r, _ = check(case)
    record(case, r)
  if job['stride'] == 1:
    acct.exhaustive_parts.append('%s via %s: one abort injected at every one of %d yield points' % (job['template'], job['via'], n))
  # abort + one preemption INSIDE the abort call (kill / async_raise / stop run right after the injection point): the
  # running body may finish, or the executor may move on, between any two lines of it.  Enumerated around every 8th
  # abort position of the templates whose bodies end by themselves.
  if job['via'] == 'thread' and job['template'] in FOCUS_TEMPLATES:
    swept = 0
    for k in ks[::3]:
      s1, _, _ = run_case(dict(base, plan={str(k): inj1}), trace=True)
      inner = [kk for kk, tidx, tg in s1.tags if kk > k and tg and tg[0] == 'line' and tg[1] in ('kill', 'async_raise', '_is_thread_proc_running')]
      if not inner or swept >= 6:
        continue        # this abort did not have to kill a running phase thread
      swept += 1
      for k2 in inner:
        for c in (0, 1, 2):
          case = dict(base, plan={str(k): inj1, str(k2): c})
          r, _ = check(case)
          record(case, r)
  # whatever the abort call itself computes from the live test state (descriptions for its log lines) runs while the
  # executor moves on: one preemption between any two lines of it, at every abort position that executes such lines
  if job['via'] == 'thread' and job['template'] in ('plain3', 'group') and not job.get('rerun') and 'cancel' not in job and not job.get('profile'):
    for k in (ks[::2] if job['stride'] > 1 else ks):
      s1, _, _ = run_case(dict(base, plan={str(k): inj1}), trace=True)
      inner = [kk for kk, tidx, tg in s1.tags if kk > k and tg and tg[0] == 'line' and tg[1] in ('last_run_phase_name', '__str__')]
      for k2 in inner:
        for c in (0, 1, 2, 3, 4):
          case = dict(base, plan={str(k): inj1, str(k2): c})
          r, _ = check(case)
          record(case, r)
  # two aborts / abort + one preemption: seeded sample
  import random  # pylint: disable=g-import-not-at-top
  rnd = random.Random(job['seed'] * 7919 + sum(map(ord, job['template'] + job['via'])))
  for _ in range(job['pairs']):
    k1 = rnd.randrange(0, max(1, n))
    k2 = rnd.randrange(k1 + 1, n + 400)
    if rnd.random() < 0.6:
      p = {str(k1): inj1, str(k2): inj2}
    else:
      p = {str(k1): inj1, str(rnd.randrange(0, n + 200)): rnd.randrange(0, 3)}
      if len(p) < 2:
        continue
    case = dict(base, plan=p)
    r, _ = check(case)
    record(case, r)


def replay(case):
  if case.get('real'):
    return check_real(case).violations
  setup_lines()
  return check(case)[0].violations
