"""C03 - PhaseGroup teardown always runs once the group was entered (real-thread part: all ways main can end)."""
import sys
import threading

from vf import hyp
from vf import progs
from vf import rmode
from vf import spec
from vf.hyp import CaseResult

ID = 'C03'
LEVEL = 'fault_enumeration'
RULE = ('Programs (free grammar, groups weighted up, nesting in sequences/subtests/branches/other groups incl. setup/main/'
        'teardown of other groups) x how main ends {normal, exception, STOP, timeout, failed subtest, nested-group failure, '
        'terminal earlier teardown node}; plus all small trees (k<=3 leaves) that contain a group, and small trees placed into group/subtest contexts.  Oracle = invariants over '
        'the body/plug event log, no model of the executor: (1) group whose setup phases all completed non-terminally and whose '
        'subtest had not failed -> every direct teardown phase ran exactly once, after every main body of the group, before any '
        'body following the group and before the first plug tearDown; (2) a terminal setup phase -> no main/teardown body of '
        'that group; (3) a terminal teardown phase -> no node following the group, or following any enclosing sequence/branch/subtest/group up to an enclosing teardown, runs.  '
        'Non-trivial = an entered group whose main ended abnormally (terminal or FAIL_SUBTEST record inside main, or terminal '
        'teardown node); distinct by canonical AST.  Timeout clause: groups whose setup / main / teardown phase runs into its timeout (bodies that die when killed, that cannot be killed, that end late; virtual time, C12 engine): the executor does not hang, the group teardown and plug tearDown run.')
ASSUMPTIONS = [
    'Whether the enclosing subtest had failed at group entry is taken from the reference interpreter and only used to *skip* groups (precondition), never to demand behaviour.',
    'Groups located inside a teardown while inside a subtest are skipped (docs ambiguous).',
    'Timeout = timeout_s=0 + blocking body; bodies of timeout phases are excluded from ordering constraints.',
]

_BASE = {'threads': None}


def pids_under(nodes):
  return [n['id'] for n, _ in progs.walk(nodes) if n['t'] == 'phase']


def final_records(obs):
  out = {}
  for p in obs.record['phases']:
    out.setdefault(p['name'], []).append(p)
  return out


def phase_terminal(p, recs, sof):
  """None if the phase wrote no record; else True/False whether its final result is terminal."""
  rs = recs.get('p%d' % p['id'])
  if not rs:
    return None
  last = rs[-1]
  if spec.is_terminal_kind(last['result']):
    return True
  if last['result'] == 'REPEAT' and last['outcome'] == 'ERROR':
    return True
  if sof and last['outcome'] == 'FAIL':
    return True
  return False


def parent_kind(node):
  return node.get('t', '?')


def check(prog):
  r = CaseResult()
  x = spec.expect(prog)
  if _BASE['threads'] is None:
    _BASE['threads'] = threading.active_count()
  obs = rmode.run_program(prog)
  if threading.active_count() > _BASE['threads'] + 4:
    rmode.settle_threads(_BASE['threads'])
  if obs.record is None:
    r.bad('C03/no-record', 'execute() raised %r' % (obs.exc,))
    return r
  recs = final_records(obs)
  sof = bool(prog['opts'].get('sof'))
  timeout_pids = {p['id'] for p in progs.all_phases(prog) if p['o'].get('to') == 0}
  first_idx, count0 = {}, {}
  last_idx = {}
  plug_td_idx = None
  for i, e in enumerate(obs.events):
    if e[0] == 'body':
      first_idx.setdefault(e[1], i)
      last_idx[e[1]] = i
      if e[2] == 0:
        count0[e[1]] = count0.get(e[1], 0) + 1
    elif e[0] == 'plug-td' and plug_td_idx is None:
      plug_td_idx = i
  order = [n['id'] for n, _ in progs.walk(prog['nodes']) if n['t'] == 'phase']
  pos = {pid: k for k, pid in enumerate(order)}
  classes = set()
  # parent lists for sibling lookup
  parents = {}

  def index_parents(lst, part_in_td, parent):
    for k, n in enumerate(lst):
      parents[id(n)] = (lst, k, part_in_td, parent)
      for part, sub in progs.children_lists(n):
        index_parents(sub, part_in_td or part == 'td', n)

  index_parents(prog['nodes'], False, None)
  ngroups = 0
  for g, c in progs.walk(prog['nodes']):
    if g['t'] != 'group':
      continue
    ngroups += 1
    if any(s['t'] != 'phase' for s in g['s']):
      classes.add('group:complex-setup-skipped')
      continue
    M = [p for p in pids_under(g['m'])]
    TD = [p for p in pids_under(g['td'])]
    inside = set(pids_under([g]))
    if not inside:
      continue
    st = [phase_terminal(s, recs, sof) for s in g['s']]
    setup_states = []
    for s, t in zip(g['s'], st):
      if t is None:
        setup_states.append('skipped-by-run_if' if s['o'].get('run_if') == 'F' else 'no-record')
      else:
        ran = s['id'] in first_idx or s['id'] in timeout_pids
        setup_states.append('terminal' if t else ('ok' if ran else 'auto-skipped'))
    if 'terminal' in setup_states:
      classes.add('group:setup-terminal')
      k = setup_states.index('terminal')
      # (2) nothing of main/teardown runs (in a non-teardown context later setup phases do not run either)
      ran_after = [p for p in M + TD if p in first_idx]
      if ran_after:
        r.bad('C03/ran-after-terminal-setup', 'group g%d: setup phase p%d was terminal but bodies %r of main/teardown ran' % (
            g['id'], g['s'][k]['id'], ran_after))
      continue
    if any(s in ('no-record', 'auto-skipped') for s in setup_states):
      classes.add('group:not-reached-or-skipped')
      continue
    info = x.groups.get(g['id'])
    if info is None:
      classes.add('group:not-reached')
      continue
    if info['subtest_failed_at_entry'] or info['subtest_failed_after_setup'] or (c['in_td'] and c['subtest'] is not None):
      classes.add('group:precondition-excluded')
      continue
    if not any(p in first_idx for p in inside) and not any('p%d' % p in recs for p in inside):
      # Nothing of the group was observed.  Either it was never reached (an earlier terminal node, an untaken
      # branch) or it was entered and not torn down.  Only the reference interpreter can tell; trust it only on
      # programs the docs decide.
      if x.unspecified:
        classes.add('group:not-reached-or-unknown')
        continue
    classes.add('group:entered')
    main_abnormal = any(
        (spec.is_terminal_kind(rr['result']) or rr['result'] == 'FAIL_SUBTEST' or (rr['result'] == 'REPEAT' and rr['outcome'] == 'ERROR'))
        for p in M for rr in recs.get('p%d' % p, []))
    td_direct = [t for t in g['td'] if t['t'] == 'phase']
    td_terminal = [t['id'] for t in td_direct if phase_terminal(t, recs, sof)]
    if main_abnormal:
      classes.add('nt:main-ended-abnormally')
    if td_terminal:
      classes.add('nt:terminal-teardown-node')
    # (1) every direct plain teardown phase ran exactly once, in the right window
    m_last = max([last_idx[p] for p in M if p in last_idx and p not in timeout_pids] or [-1])
    after = [p for p in order if p not in inside and pos[p] > max(pos[q] for q in inside)]
    a_first = min([first_idx[p] for p in after if p in first_idx and p not in timeout_pids] or [10**9])
    for t in td_direct:
      if t['o'].get('run_if') == 'F' or t['o'].get('run_if') == 'X' or t['o'].get('to') == 0:
        continue
      pid = t['id']
      n0 = count0.get(pid, 0)
      if n0 != 1:
        r.bad('C03/teardown-%s' % ('not-run' if n0 == 0 else 'run-twice'),
              'group g%d was entered (setup %r) but teardown phase p%d ran %d times; main_abnormal=%s' % (
                  g['id'], setup_states, pid, n0, main_abnormal))
        continue
      i = first_idx[pid]
      if i < m_last:
        r.bad('C03/teardown-before-main-finished', 'group g%d: teardown p%d (event %d) before last main body (event %d)' % (g['id'], pid, i, m_last))
      if i > a_first:
        r.bad('C03/teardown-after-following-node', 'group g%d: teardown p%d (event %d) after a body following the group (event %d)' % (g['id'], pid, i, a_first))
      if plug_td_idx is not None and i > plug_td_idx:
        r.bad('C03/teardown-after-plug-teardown', 'group g%d: teardown p%d ran after plug tearDown' % (g['id'], pid))
    # (3) terminal teardown node propagates outward
    if td_terminal:
      # ... through every enclosing sequence, branch, subtest and group, up to the test or to an enclosing teardown
      # (whose remaining nodes still run)
      node, level = g, 0
      while node is not None:
        lst, k, parent_in_td, parent = parents[id(node)]
        if parent_in_td or c['in_td']:
          break
        sib = pids_under(lst[k + 1:])
        ran = [p for p in sib if p in first_idx]
        if ran:
          r.bad('C03/terminal-teardown-not-propagated' + ('' if level == 0 else '/outer'),
                'group g%d: teardown phase(s) %r terminal but nodes %r following %s ran' % (
                    g['id'], td_terminal, ran, 'the group' if level == 0 else 'its enclosing %s (level %d)' % (parent_kind(node), level)))
          break
        node, level = parent, level + 1
  r.classes = sorted(classes) + ['groups:%d' % min(ngroups, 4)]
  r.nontrivial = bool({'nt:main-ended-abnormally', 'nt:terminal-teardown-node'} & classes)
  return r


def with_plug(prog):
  """Adds one plain plug (to the first phase) so that 'before plug tearDown' is observable."""
  ph = progs.all_phases(prog)
  if not ph:
    return prog
  prog = dict(prog, plugs=[{'ctor': 'ok', 'td': 'ok'}])
  ph[-1]['plugs'] = [['plug_a', 0, True]]
  return prog


CFG = {'group_weight': 9, 'setup_leaf_only': True}


def plan(tier, seed):
  jobs = []
  n = 500 if tier == 'quick' else 9000
  for i in range(16):
    jobs.append({'kind': 'hyp', 'name': 'hyp%d' % i, 'hseed': seed * 1000 + i, 'n': n})
  spaces = [(2, 1, 2, 'all'), (3, 1, 256, 16)] if tier == 'quick' else [(2, 2, 32, 'all'), (3, 1, 64, 'all')]
  for k, md, nsh, run in spaces:
    which = range(nsh) if run == 'all' else [(seed * run + s) % nsh for s in range(run)]
    for s in which:
      jobs.append({'kind': 'enum', 'name': 'enum%d.%d.%d' % (k, md, s), 'k': k, 'maxdepth': md, 'shard': s, 'nshards': nsh,
                   'complete': run == 'all'})
  # every small tree placed into every context that contains a group (teardown of a failed-subtest group, ...)
  ctx_spaces = [(1, 2, 1, 'all'), (2, 1, 64, 16)] if tier == 'quick' else [(1, 2, 1, 'all'), (2, 1, 16, 'all'), (2, 2, 512, 32)]
  for k, md, nsh, run in ctx_spaces:
    which = range(nsh) if run == 'all' else [(seed * run + s) % nsh for s in range(run)]
    for s in which:
      jobs.append({'kind': 'ctx', 'name': 'ctx%d.%d.%d' % (k, md, s), 'k': k, 'maxdepth': md, 'shard': s, 'nshards': nsh, 'complete': run == 'all'})
  # the "single operator abort arriving at any moment" clause: an abort injected at every yield point of scheduled runs
  # of the group templates (engine and event-log invariants of C04; only the teardown clauses are attributed to C03)
  for t in ABORT_TEMPLATES:
    for via in ('thread', 'signal'):
      jobs.append({'kind': 'abort-sweep', 'name': 'abort.%s.%s' % (t, via), 'template': t, 'via': via,
                   'stride': 3 if tier == 'quick' else 1, 'offset': seed % 3 if tier == 'quick' else 0})
  for via in ('thread', 'signal'):    # the same Test object has been executed before (abort during its second run)
    jobs.append({'kind': 'abort-sweep', 'name': 'abort.rerun.group.%s' % via, 'template': 'group', 'via': via, 'rerun': True,
                 'stride': 3 if tier == 'quick' else 1, 'offset': seed % 3 if tier == 'quick' else 0})
  # "... no matter how main ended: ... timeout": a group whose setup / main / teardown phase runs into its timeout, with bodies
  # that die when killed, that cannot be killed, or that end just after the deadline (engine and grid of C12's timeout
  # domain, virtual time; only the teardown clauses are attributed to C03)
  jobs.append({'kind': 'timeout-teardown', 'name': 'timeout-teardown'})
  return jobs


TIMEOUT_SIGS = ('C12/timeout/hang', 'C12/timeout/group-teardown-skipped', 'C12/timeout/plug-teardown-skipped')


def timeout_teardown_cases():
  from vf.props import c12  # pylint: disable=g-import-not-at-top
  for case in c12.timeout_grid():
    if case['pos'] in ('main', 'setup', 'teardown') and case['kind'] in ('killable', 'unkillable', 'returns') and not case.get('sof') \
        and case.get('flag') is None and case['t'] in (0.5, 3.0) and case['d'] != 0.0:
      yield case


def check_timeout_teardown(case):
  from vf.props import c12  # pylint: disable=g-import-not-at-top
  c12.setup_lines()
  r, _ = c12.check_timeout(case)
  return r, [(sig.replace('C12/timeout/', 'C03/timeout/'), d) for sig, d in r.violations if sig in TIMEOUT_SIGS]


ABORT_TEMPLATES = ['group', 'nested', 'subtest', 'two-groups', 'swallow', 'slow-exit']
# 'bodies-overlap' in these templates = a teardown body started while a main body of its group was still running
# ("teardown runs ... after the group's main nodes stop")
ABORT_SIGS = ('C04/teardown-skipped', 'C04/plug-teardown-skipped', 'C04/body-started-after-abort/main', 'C04/body-started-after-abort/setup',
              'C04/bodies-overlap')


def run_job(job, acct):
  known = set(job.get('known', ()))
  if job['kind'] == '_regress':
    from vf import runner  # pylint: disable=g-import-not-at-top
    runner.run_regress(sys.modules[__name__], job, acct)
  elif job['kind'] == 'abort-sweep':
    from vf.props import c04  # pylint: disable=g-import-not-at-top
    c04.setup_lines()
    base = {'template': job['template'], 'via': job['via'], 'plan': {}}
    if job.get('rerun'):
      base['rerun'] = True
    r0, s0 = c04.check(base)
    inj = ['wake', 'aborter0'] if job['via'] == 'thread' else 'SIGINT'
    for k in range(job['offset'], (s0.k // 2 + 50) if job.get('rerun') else s0.k, job['stride']):
      case = dict(base, plan={str(k): inj})
      r, _ = c04.check(case)
      acct.case({'abort_sweep': case}, r.nontrivial, ['abort-sweep', 'template:' + job['template']])
      for sig, detail in r.violations:
        if sig in ABORT_SIGS:
          sig3 = sig.replace('C04/', 'C03/abort/')
          (acct.known if sig3 in known else acct.violation)(sig3, {'abort_sweep': case}, detail)
    if job['stride'] == 1:
      acct.exhaustive_parts.append('%s via %s: one abort at every one of %d yield points' % (job['template'], job['via'], s0.k))
  elif job['kind'] == 'timeout-teardown':
    n = 0
    for case in timeout_teardown_cases():
      r, vs = check_timeout_teardown(case)
      n += 1
      acct.case({'timeout_teardown': case}, r.nontrivial, ['timeout-teardown', 'pos:' + case['pos'], 'kind:' + case['kind']])
      for sig3, detail in vs:
        (acct.known if sig3 in known else acct.violation)(sig3, {'timeout_teardown': case}, detail)
    acct.exhaustive_parts.append('group with a phase running into its timeout: %d cases of {setup, main, teardown} x {killable, unkillable, returns late} x timeout x duration' % n)
  elif job['kind'] == 'hyp':
    strat = progs.programs(strict=False, with_test_start=False, cfg=CFG).map(with_plug)
    hyp.search(acct, strat, check, seed=job['hseed'], max_examples=job['n'], known=known)
  elif job['kind'] == 'ctx':
    for i, (cname, prog) in enumerate(progs.enumerate_in_contexts(job['k'], job['maxdepth'])):
      if i % job['nshards'] != job['shard']:
        continue
      if not any(n['t'] == 'group' for n, _ in progs.walk(prog['nodes'])):
        continue
      prog = with_plug(prog)
      r = check(prog)
      acct.case(prog, r.nontrivial, r.classes + ['ctx:' + cname])
      for sig, detail in r.violations:
        (acct.known if sig in known else acct.violation)(sig, prog, detail)
    if job['shard'] == 0 and job['complete']:
      acct.exhaustive_parts.append('all trees with k=%d leaves (depth<=%d) placed into each context that has a group' % (job['k'], job['maxdepth']))
  elif job['kind'] == 'enum':
    for i, prog in enumerate(progs.enumerate_programs(job['k'], job['maxdepth'])):
      if i % job['nshards'] != job['shard']:
        continue
      if not any(n['t'] == 'group' for n, _ in progs.walk(prog['nodes'])):
        continue
      prog = with_plug(prog)
      r = check(prog)
      acct.case(prog, r.nontrivial, r.classes + ['enum-k%d' % job['k']])
      for sig, detail in r.violations:
        (acct.known if sig in known else acct.violation)(sig, prog, detail)
    if job['shard'] == 0 and job['complete']:
      acct.exhaustive_parts.append('all trees with k=%d leaves (depth<=%d) that contain a group' % (job['k'], job['maxdepth']))


def replay(case):
  if 'timeout_teardown' in case:
    return check_timeout_teardown(case['timeout_teardown'])[1]
  if 'abort_sweep' in case:
    from vf.props import c04  # pylint: disable=g-import-not-at-top
    c04.setup_lines()
    return [(s.replace('C04/', 'C03/abort/'), d) for s, d in c04.check(case['abort_sweep'])[0].violations if s in ABORT_SIGS]
  return check(case).violations
