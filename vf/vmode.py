"""V-mode glue: installs the scheduler's proxies into the openhtf modules and runs a case under a Scheduler."""
import logging

from vf import ohtf
from vf import vsched as V

_STATE = {'ready': False, 'usb': False, 'selftest': False}


def setup(usb=False, lines=True):
  htf = ohtf.load()
  if not _STATE['selftest']:
    from vf import vsched_selftest  # pylint: disable=g-import-not-at-top
    vsched_selftest.run_all()
    _STATE['selftest'] = True
  if not _STATE['ready']:
    import openhtf.util as util  # pylint: disable=g-import-not-at-top
    from openhtf.util import threads, timeouts  # pylint: disable=g-import-not-at-top
    from openhtf.core import test_executor, phase_executor, test_descriptor, test_state, base_plugs  # pylint: disable=g-import-not-at-top
    import openhtf.plugs as plugs  # pylint: disable=g-import-not-at-top
    from openhtf.plugs import user_input  # pylint: disable=g-import-not-at-top
    V.install_proxies([util, threads, timeouts, test_executor, phase_executor, test_descriptor, test_state, plugs, user_input, base_plugs])
    V.install_patches()
    _STATE['ready'] = True
  if usb and not _STATE['usb']:
    from vf import fakes_usb  # pylint: disable=g-import-not-at-top
    m = fakes_usb.load()
    from openhtf.plugs.usb import shell_service  # pylint: disable=g-import-not-at-top
    V.install_proxies([m.adb_message, m.adb_protocol, shell_service])
    _STATE['usb'] = True
  return htf


def quiet_logging(on=True):
  logging.getLogger('openhtf').setLevel(100 if on else logging.DEBUG)


def executor_code_objects():
  from openhtf.util import threads  # pylint: disable=g-import-not-at-top
  from openhtf.core import test_executor, phase_executor, test_descriptor  # pylint: disable=g-import-not-at-top
  import openhtf.util as util  # pylint: disable=g-import-not-at-top
  return V.code_objects_of(
      test_executor.TestExecutor, phase_executor.PhaseExecutor, phase_executor.PhaseExecutorThread, threads.KillableThread,
      test_descriptor.Test.execute, test_descriptor.Test.abort_from_sig_int, test_descriptor.Test.handle_sig_int,
      util.SubscribableStateMixin)


def run(fn, plan=None, random_policy=None, signals=None, signal_handler=None, time_limit=100000.0, max_steps=300000, trace=False, watchdog_s=20.0):
  s = V.Scheduler(plan=plan, random_policy=random_policy, signals=signals, time_limit=time_limit, max_steps=max_steps, trace=trace)
  s.signal_handler = signal_handler
  result, exc = s.run(lambda: fn(s), watchdog_s=watchdog_s)
  return s, result, exc
