"""./check <ID> [--tier quick|thorough] [--replay path] [--workers N]

Exit codes: 0 property held on everything explored (KNOWN-FINDING lines allowed),
1 `VIOLATION property=<id> replay=<path>`, 2 harness error / inconclusive.
"""
import argparse
import glob
import importlib
import json
import multiprocessing
import os
import sys
import time
import traceback

from vf import findings
from vf.accounting import Acct, canon, h64

ROOT = os.path.dirname(os.path.dirname(os.path.abspath(__file__)))


def _slug(s, n=60):
  return ''.join(ch if ch.isalnum() or ch in '-_.' else '_' for ch in s)[:n]


def _run_job(args):
  modname, job = args
  try:
    mod = importlib.import_module(modname)
    acct = Acct()
    mod.run_job(job, acct)
    return ('ok', job.get('name', '?'), acct.to_dict())
  except BaseException:  # pylint: disable=broad-except
    return ('err', job.get('name', '?'), traceback.format_exc())


def _jsonable(x):
  try:
    json.dumps(x)
    return x
  except (TypeError, ValueError):
    return json.loads(json.dumps(x, default=repr))


def write_replay(pid, v):
  d = os.path.join(ROOT, 'replays', pid)
  os.makedirs(d, exist_ok=True)
  path = os.path.join(d, '%s-%016x.json' % (_slug(v['sig']), h64(v['case'])))
  with open(path, 'w') as f:
    json.dump({'property': pid, 'sig': v['sig'], 'detail': v['detail'], 'case': _jsonable(v['case'])},
              f, indent=1, sort_keys=True, default=repr)
  return os.path.relpath(path, ROOT)


def main(argv=None):
  ap = argparse.ArgumentParser()
  ap.add_argument('prop')
  ap.add_argument('--tier', default=os.environ.get('VERIF_TIER') or 'quick', choices=['quick', 'thorough'])
  ap.add_argument('--replay')
  ap.add_argument('--workers', type=int, default=int(os.environ.get('VERIF_WORKERS', '0')) or min(16, os.cpu_count() or 1))
  ap.add_argument('--no-evidence', action='store_true')
  args = ap.parse_args(argv)
  pid = args.prop.upper()
  try:
    seed = int(os.environ.get('VERIF_SEED', '1') or '1')
  except ValueError:
    seed = 1
  modname = 'vf.props.' + pid.lower()
  t0 = time.time()
  try:
    mod = importlib.import_module(modname)
  except Exception:  # pylint: disable=broad-except
    traceback.print_exc()
    print('HARNESS-ERROR property=%s cannot import check module' % pid)
    return 2

  known = findings.load(pid)

  # ---- replay mode -----------------------------------------------------------
  if args.replay:
    with open(args.replay) as f:
      doc = json.load(f)
    case = doc['case'] if isinstance(doc, dict) and 'case' in doc else doc
    try:
      vs = mod.replay(case)
      if not vs:
        # schedule-indexed cases were recorded in a long-running worker; the first run in a fresh process executes
        # one-time initialisation lines that shift yield indices, so a quiet first run is repeated in the steady state
        vs = mod.replay(case)
    except Exception:  # pylint: disable=broad-except
      traceback.print_exc()
      print('HARNESS-ERROR property=%s replay raised' % pid)
      return 2
    bad = [(s, d) for s, d in vs if s not in known]
    for s, d in vs:
      if s in known:
        print('KNOWN-FINDING: property=%s %s [%s]' % (pid, known[s], s))
    if bad:
      for s, d in bad:
        print('  sig=%s\n  %s' % (s, d))
      print('VIOLATION property=%s replay=%s' % (pid, args.replay))
      return 1
    print('OK property=%s replay passes' % pid)
    return 0

  # ---- search mode -----------------------------------------------------------
  import shutil  # pylint: disable=g-import-not-at-top
  shutil.rmtree(os.path.join(ROOT, 'replays', pid), ignore_errors=True)   # replay files of this run only
  total = Acct()
  jobs = list(mod.plan(args.tier, seed))
  reg = sorted(glob.glob(os.path.join(ROOT, 'regress', pid, '*.json')))
  if reg and hasattr(mod, 'replay'):
    jobs.insert(0, {'kind': '_regress', 'name': 'regress', 'files': reg})
  for j in jobs:
    j.setdefault('tier', args.tier)
    j.setdefault('seed', seed)
    j['known'] = sorted(known)
  errors = []
  ctx = multiprocessing.get_context('fork')
  nworkers = max(1, min(args.workers, len(jobs)))
  pool = ctx.Pool(nworkers, maxtasksperchild=getattr(mod, 'MAX_TASKS_PER_CHILD', None))
  budget = float(os.environ.get('VERIF_MAX_WALL_S') or (900 if args.tier == 'quick' else 6 * 3600))
  timed_out = False
  n_done = 0
  try:
    it = pool.imap_unordered(_run_job, [(modname, j) for j in jobs])
    for _ in range(len(jobs)):
      try:
        status, name, payload = it.next(timeout=max(1.0, budget - (time.time() - t0)))
      except multiprocessing.TimeoutError:
        timed_out = True
        break
      n_done += 1
      if status == 'ok':
        total.merge(payload)
      else:
        errors.append((name, payload))
    if not timed_out:
      pool.close()
      pool.join()
  finally:
    pool.terminate()
  if timed_out and args.tier == 'quick':
    # A wall-clock budget hit is "inconclusive" (code under test hangs or the machine is overloaded), never a violation.
    print('HARNESS-ERROR property=%s inconclusive: wall-clock budget of %.0fs exceeded (a job hangs?)' % (pid, budget))
    return 2
  if timed_out:
    # thorough tier: the budget bounds the exploration; what the finished jobs explored is reported, the rest is named
    note = 'wall-clock budget of %.0fs used up after %d of %d jobs; the remaining jobs were not run (nothing is claimed for them)' % (budget, n_done, len(jobs))
    total.notes.append(note)
    print('INCONCLUSIVE-PART property=%s %s' % (pid, note))
  wall = time.time() - t0

  viols = [v for s, v in sorted(total.violations.items()) if s not in known]
  known_hit = dict(total.known_hits)
  for s, v in total.violations.items():
    if s in known:
      known_hit.setdefault(s, v)

  if errors:
    for name, tb in errors:
      print('--- job %s failed ---\n%s' % (name, tb))
    print('HARNESS-ERROR property=%s %d job(s) raised' % (pid, len(errors)))
    return 2

  # evidence
  level = getattr(mod, 'LEVEL', 'exploration')
  cov = {
      'evaluations': total.evaluations,
      'distinct_nontrivial': len(total.nontrivial),
      'rule': getattr(mod, 'RULE', ''),
      'samples': [_jsonable(s) for s in total.samples()],
      'classes': dict(sorted(total.classes.items())),
      'excluded_known': total.excluded_known,
      'jobs': len(jobs),
  }
  if total.extra:
    cov['counters'] = dict(sorted(total.extra.items()))
  if total.exhaustive_parts:
    cov['exhaustive_parts'] = total.exhaustive_parts
    if getattr(mod, 'EXHAUSTIVE_WHOLE', False):
      cov['exhaustive'] = True
  if total.notes:
    cov['notes'] = sorted(set(total.notes))[:20]
  ev = {
      'property_id': pid, 'tier': args.tier, 'seed': seed, 'level': level, 'coverage': cov,
      'assumptions': list(getattr(mod, 'ASSUMPTIONS', [])),
      'wall_s': round(wall, 2), 'violations': len(viols),
      'known_findings_hit': sorted(known_hit),
      'repo': os.environ.get('VERIF_REPO', '/repo'),
  }
  if not args.no_evidence:
    os.makedirs(os.path.join(ROOT, 'evidence'), exist_ok=True)
    with open(os.path.join(ROOT, 'evidence', pid + '.json'), 'w') as f:
      json.dump(ev, f, indent=1, sort_keys=True, default=repr)
      f.write('\n')

  for s in sorted(known_hit):
    print('KNOWN-FINDING: property=%s %s [%s] (%d case(s) excluded)' % (pid, known[s], s, known_hit[s].get('count', 1)))
  print('%s tier=%s seed=%d evaluations=%d distinct_nontrivial=%d wall=%.1fs' %
        (pid, args.tier, seed, total.evaluations, len(total.nontrivial), wall))
  if viols:
    for v in viols:
      path = write_replay(pid, v)
      print('  sig=%s count=%d\n  %s' % (v['sig'], v['count'], str(v['detail'])[:2000]))
      print('VIOLATION property=%s replay=%s' % (pid, path))
    return 1
  if total.evaluations == 0 or len(total.nontrivial) < 2:
    print('HARNESS-ERROR property=%s vacuous run (no non-trivial cases)' % pid)
    return 2
  print('OK property=%s' % pid)
  return 0


def run_regress(mod, job, acct):
  """Shared job kind: replay the committed regression corpus through mod.replay."""
  for path in job['files']:
    with open(path) as f:
      doc = json.load(f)
    case = doc['case'] if isinstance(doc, dict) and 'case' in doc else doc
    vs = mod.replay(case)
    acct.case({'regress': os.path.basename(path)}, True, ['regress'])
    for sig, detail in vs:
      if sig in job['known']:
        acct.known(sig, case, detail)
      else:
        acct.violation(sig, case, detail)


def main_in_scratch():
  """Runs main() with a temporary directory of its own as TMPDIR and removes it afterwards.

  openhtf keeps every attachment in a NamedTemporaryFile that is only deleted by Attachment.__del__; worker processes that
  end with live records (or are terminated) would leave thousands of small files in the system's temporary directory.
  """
  import shutil  # pylint: disable=g-import-not-at-top
  import tempfile  # pylint: disable=g-import-not-at-top
  scratch = tempfile.mkdtemp(prefix='vfrun-')
  os.environ['TMPDIR'] = scratch
  tempfile.tempdir = scratch
  try:
    return main()
  finally:
    shutil.rmtree(scratch, ignore_errors=True)


if __name__ == '__main__':
  sys.exit(main_in_scratch())
