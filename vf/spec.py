"""Reference interpreter: an executable reading of docs/event_sequence.md, the PhaseResult / PhaseOptions
doc comments, the diagnoses_lib module docstring and the C01/C02/C05 statements.

It shares no code with the executor.  Input: a program AST (vf.progs).  Output: Expect.
Entries marked optional are ones the documents do not decide (see DESIGN.md 2.1/2.2).
"""
import collections

CONT, TERM = 0, 1

EXC_OF_END = {'RAISE_A': 'ExcA', 'RAISE_A2': 'ExcA2', 'RAISE_BADSTR': 'ExcBadStr', 'RAISE_B': 'ExcB', 'RAISE_O': 'ExcO', 'EXIT': 'SystemExit', 'INVALID': 'InvalidPhaseResultError',
              'INVALID_FALSE': 'InvalidPhaseResultError', 'INVALID_ZERO': 'InvalidPhaseResultError',
              'INVALID_EMPTY': 'InvalidPhaseResultError'}
TERMINAL_KINDS = ('STOP', 'TIMEOUT')


def is_terminal_kind(kind):
  # 'KILLED': an observed record of a body that called sys.exit() (or was killed)
  return kind in TERMINAL_KINDS or kind.startswith('EXC:') or kind == 'KILLED'


class Expect(object):

  def __init__(self):
    self.events = []       # ('body', pid, inv, optional) | ('run_if', pid) | ('diag', pid, k) | ('tdiag', k)
    self.phases = []       # dict(name, outcome, result, subtest, optional, meas, diag, fdiag)
    self.checkpoints = []  # dict(name, result, subtest)
    self.branches = collections.Counter()   # (name, taken)
    self.subtests = collections.Counter()   # (name, outcome)
    self.diagnoses = []    # (result_name, is_failure)
    self.outcomes = set()
    self.first_terminal = None   # ('EXC', name) | ('TIMEOUT',) | ('STOP',)
    self.soft_error = False      # an ERROR record whose terminal result was repeated away
    self.dut_id = None
    self.unspecified = []        # reasons why the docs do not decide this program (=> not strict)
    self.groups = {}             # group id -> facts about its entry (used as *preconditions* by C03)


class _Subtest(object):
  __slots__ = ('name', 'failed')

  def __init__(self, name, failed):
    self.name = name
    self.failed = failed


class Model(object):

  def __init__(self, prog):
    self.prog = prog
    self.x = Expect()
    self.inv = collections.Counter()
    self.store = set()
    self.opts = prog['opts']

  # ------------------------------------------------------------------ top level
  def run(self):
    x = self.x
    ts = self.prog.get('test_start')
    early = False
    if ts is not None:
      if ts.get('lambda'):
        x.phases.append(dict(name='trigger_phase', outcome='PASS', result='CONTINUE', subtest=None, optional=False,
                             meas={}, diag=[], fdiag=[]))
        x.dut_id = 'DUT1'
      else:
        kind = self._run_phase(ts, None)
        if kind == 'TERMINAL':
          early = True
    if not early:
      self._seq(self.prog['nodes'], None, False)
      for k, d in enumerate(self.prog['tdiags']):
        x.events.append(('tdiag', k))
        if d.get('raise') == 'exit':
          x.unspecified.append('test diagnoser calls sys.exit()')
        if d.get('raise') or d.get('garbage'):
          self._terminal(('EXC', 'DiagBoom' if d.get('raise') else 'InvalidDiagnosisError'))
          continue
        for r, f, i in d['emit']:
          if i:
            self._terminal(('EXC', 'InvalidDiagnosisError'))
            break
          x.diagnoses.append(('R%d' % r, bool(f or d.get('af'))))
          self.store.add(r)
    x.outcomes = self._outcomes()
    return x

  def _terminal(self, what):
    if self.x.first_terminal is None:
      self.x.first_terminal = what

  def _outcomes(self):
    x = self.x
    ft = x.first_terminal
    if ft is not None:
      if ft[0] == 'EXC':
        fe = {'A': ('ExcA', 'ExcA2'), 'B': ('ExcB',)}   # ExcA2 is a subclass of ExcA
        return {'FAIL'} if any(ft[1] in fe[k] for k in self.opts.get('fexc', [])) else {'ERROR'}
      if ft[0] == 'TIMEOUT':
        return {'TIMEOUT'}
      return {'FAIL'}
    recs = [p for p in x.phases if not p['optional']]
    opt = [p for p in x.phases if p['optional']]
    has_fail = any(p['outcome'] == 'FAIL' for p in x.phases)
    has_error = any(p['outcome'] == 'ERROR' for p in x.phases)
    fdiag = any(f for _, f in x.diagnoses)
    failed_sub = any(o == 'FAIL' for (_, o), n in x.subtests.items() if n)
    if has_error:
      x.soft_error = True
      return {'FAIL', 'ERROR', 'TIMEOUT'}
    if has_fail:
      return {'FAIL'}
    out = set()
    # optional records are SKIP records: they may or may not exist
    all_skip_possible = bool(x.phases) and all(p['outcome'] == 'SKIP' for p in x.phases) and (bool(recs) or bool(opt))
    all_skip_certain = bool(recs) and all(p['outcome'] == 'SKIP' for p in x.phases)
    if all_skip_possible:
      out.add('ERROR')
      if fdiag or failed_sub:
        out.add('FAIL')
      if all_skip_certain:
        return out
    if fdiag or failed_sub:
      out.add('FAIL')
    else:
      out.add('PASS')
    return out

  # ------------------------------------------------------------------ nodes
  def _seq(self, nodes, st, in_td):
    if in_td:
      ret = CONT
      for n in nodes:
        ret = max(ret, self._node(n, st, True))
      return ret
    for n in nodes:
      if self._node(n, st, False) == TERM:
        return TERM
    return CONT

  def _node(self, n, st, in_td):
    return getattr(self, '_n_' + n['t'])(n, st, in_td)

  def _n_seq(self, n, st, in_td):
    return self._seq(n['c'], st, in_td)

  def _n_custom(self, n, st, in_td):
    # a node type the executor does not know (a user's own PhaseNode subclass): the docs say nothing; the run cannot
    # complete, and (C01's audit) must not be reported as if it had
    self.x.unspecified.append('user-defined node type')
    self._terminal(('EXC', 'UnhandledNodeType'))
    return TERM

  def _n_branch(self, n, st, in_td):
    if not in_td and st is not None and st.failed:
      return CONT
    if n['cond'][0].startswith('BROKEN_'):
      # evaluating the condition raises: like a checkpoint that cannot be evaluated this is a terminal error (no branch
      # record); the run must not complete as if nothing had happened (C01's model-free audit demands "not PASS")
      self._terminal(('EXC', 'TypeError'))
      return TERM
    taken = self._cond(n['cond'])
    ret = self._seq(n['c'], st, in_td) if taken else CONT
    self.x.branches[('b%d' % n['id'], taken)] += 1
    return ret

  def _n_subtest(self, n, outer, in_td):
    if in_td:
      self.x.unspecified.append('subtest nested in a teardown')
    st = _Subtest('s%d' % n['id'], bool(outer is not None and outer.failed))
    ret = self._seq(n['c'], st, in_td)
    outcome = 'STOP' if ret == TERM else ('FAIL' if st.failed else 'PASS')
    self.x.subtests[(st.name, outcome)] += 1
    return ret

  def _n_group(self, n, st, in_td):
    if in_td:
      self.x.unspecified.append('group nested in a teardown')
    skip_td = st is not None and st.failed
    info = {'subtest_failed_at_entry': bool(skip_td), 'in_td': bool(in_td), 'in_subtest': st is not None,
            'subtest_failed_after_setup': bool(skip_td), 'setup_ret': None}
    self.x.groups[n['id']] = info
    if n['s']:
      r = self._seq(n['s'], st, in_td)
      info['setup_ret'] = r
      info['subtest_failed_after_setup'] = bool(st is not None and st.failed)
      if r != CONT:
        return r
      skip_td = skip_td or (st is not None and st.failed)
    main_ret = self._seq(n['m'], st, in_td) if n['m'] else CONT
    td_ret = self._seq(n['td'], st, not skip_td) if n['td'] else CONT
    return max(main_ret, td_ret)

  def _n_cp(self, n, st, in_td):
    x = self.x
    name = 'c%d' % n['id']
    stname = st.name if st is not None else None
    if not in_td and st is not None and st.failed:
      x.checkpoints.append(dict(name=name, result='SKIP', subtest=stname))
      return CONT
    kind = None
    if n['k'] == 'diag' and n['cond'][0].startswith('BROKEN_'):
      kind = 'EXC:TypeError'      # a checkpoint that cannot be evaluated records the exception as its (terminal) result
      fired = False
    elif n['k'] == 'diag':
      fired = self._cond(n['cond'])
    else:
      recs = x.phases
      if any(p['optional'] for p in recs):
        x.unspecified.append('checkpoint after an optional SKIP record')
      if not recs:
        kind = 'EXC:NoPhasesFoundError'
        fired = False
      elif n['k'] == 'last':
        fired = recs[-1]['outcome'] == 'FAIL'
      elif n['k'] == 'subtest' and st is not None:
        fired = any(p['outcome'] == 'FAIL' and p['subtest'] == st.name for p in recs)
      else:
        fired = any(p['outcome'] == 'FAIL' for p in recs)
    if kind is None:
      if not fired:
        kind = 'CONTINUE'
      elif n['act'] == 'FAIL_SUBTEST' and st is None:
        kind = 'EXC:InvalidPhaseResultError'
      else:
        kind = n['act']
    x.checkpoints.append(dict(name=name, result=kind, subtest=stname))
    if kind.startswith('EXC:'):
      self._terminal(('EXC', kind[4:]))
      return TERM
    if kind == 'STOP':
      self._terminal(('STOP',))
      return TERM
    if kind == 'FAIL_SUBTEST':
      st.failed = True
    return CONT

  def _cond(self, cond):
    op, rs = cond
    flags = [r in self.store for r in rs]
    return {'ALL': all(flags), 'ANY': any(flags), 'NOT_ANY': not any(flags), 'NOT_ALL': not all(flags)}[op]

  def _n_phase(self, n, st, in_td):
    x = self.x
    if not in_td and st is not None and st.failed:
      x.phases.append(dict(name='p%d' % n['id'], outcome='SKIP', result='SKIP', subtest=st.name,
                           optional=n['o'].get('run_if') == 'F', meas=None, diag=[], fdiag=[]))
      return CONT
    n_before = len(x.phases)
    kind = self._run_phase(n, st)
    if self.opts.get('sof') and len(x.phases) > n_before and x.phases[-1]['outcome'] == 'FAIL' and kind != 'TERMINAL':
      self._terminal(('STOP',))
      return TERM
    if kind == 'TERMINAL':
      return TERM
    if kind == 'FAIL_SUBTEST':
      st.failed = True
    return CONT

  # ------------------------------------------------------------------ one phase with its repeats
  def _run_phase(self, n, st):
    """Returns 'CONT' | 'TERMINAL' | 'FAIL_SUBTEST'."""
    o = n['o']
    rl = o.get('rl')
    if rl == 0:
      self.x.unspecified.append('repeat_limit=0')
    limit = rl or 3
    count = 1
    while True:
      is_last = count >= limit
      kind, rec = self._invoke(n, st, is_last)
      # docs: exceptions, STOP and timeouts are terminal ("initiate a terminal short-circuit"); only a timeout
      # with repeat_on_timeout is re-invoked.  Non-terminal results repeat for REPEAT / force_repeat /
      # repeat_on_measurement_fail with a FAIL record.
      repeat = ((kind == 'TIMEOUT' and o.get('rot')) or
                (not is_terminal_kind(kind) and (kind == 'REPEAT' or o.get('fr') or
                                                 (o.get('romf') and rec is not None and rec['outcome'] == 'FAIL'))))
      if repeat and not is_last:
        count += 1
        continue
      break
    if kind == 'REPEAT':  # on the last allowed invocation
      self._terminal(('STOP',))
      return 'TERMINAL'
    if kind.startswith('EXC:'):
      self._terminal(('EXC', kind[4:]))
      return 'TERMINAL'
    if kind == 'TIMEOUT':
      self._terminal(('TIMEOUT',))
      return 'TERMINAL'
    if kind == 'STOP':
      self._terminal(('STOP',))
      return 'TERMINAL'
    if kind == 'FAIL_SUBTEST':
      return 'FAIL_SUBTEST'
    return 'CONT'

  def _invoke(self, n, st, is_last):
    """One invocation. Returns (result kind, record or None)."""
    x = self.x
    pid = n['id']
    o = n['o']
    ri = o.get('run_if')
    if ri:
      x.events.append(('run_if', pid))
      if ri == 'F':
        return 'SKIP', None
      if ri == 'X':
        return 'EXC:RunIfBoom', None
    inv = self.inv[pid]
    self.inv[pid] += 1
    b = n['s'][min(inv, len(n['s']) - 1)]
    timeout_phase = o.get('to') == 0
    x.events.append(('body', pid, inv, timeout_phase))
    end = b['end']
    if timeout_phase:
      kind = 'TIMEOUT'
    elif end in ('NONE', 'CONTINUE'):
      kind = 'CONTINUE'
    elif end in EXC_OF_END:
      kind = 'EXC:' + EXC_OF_END[end]
      if end == 'EXIT':
        # the framework cannot tell a body that called sys.exit() from one it killed: which diagnosers and teardown nodes
        # still run is not documented; only the model-free audits apply (no PASS, complete record, callbacks, ...)
        x.unspecified.append('phase body calls sys.exit()')
    elif end == 'FAIL_SUBTEST' and st is None:
      kind = 'EXC:InvalidPhaseResultError'
    elif end == 'BLOCK':
      kind = 'CONTINUE'
      x.unspecified.append('BLOCK without timeout_s=0')
    else:
      kind = end
    meas = {}
    for name in n['m']:
      v = None if timeout_phase else b['sets'].get(name)
      # 'x': a value on which the validator raises, the body swallows the exception; 'px': a passing value first, then
      # such an override - the recorded value is one its validator cannot accept: FAIL either way
      meas[name] = {'p': 'PASS', 'f': 'FAIL', 'x': 'FAIL', 'px': 'FAIL', None: 'UNSET'}[v]
      cvr = (n.get('cv') or {}).get(name)
      if cvr is not None and cvr in self.store and v == 'p':
        meas[name] = 'FAIL'   # conditional validator applies: its diagnosis result existed when the phase started
    allowed = {'PASS', 'UNSET'} if self.opts.get('allow_unset') else {'PASS'}
    meas_ok = all(v in allowed for v in meas.values())
    # pre-diagnosis outcome
    if is_terminal_kind(kind) or (kind == 'REPEAT' and is_last):
      outcome = 'ERROR'
    elif kind in ('REPEAT', 'SKIP'):
      outcome = 'SKIP'
    elif kind in ('FAIL_SUBTEST', 'FAIL_AND_CONTINUE'):
      outcome = 'FAIL'
    elif not meas_ok:
      outcome = 'FAIL'
      if o.get('somf'):
        kind = 'STOP'
    else:
      outcome = 'PASS'
    diag, fdiag = [], []
    if kind not in ('REPEAT', 'SKIP'):
      for k, d in enumerate(n['d']):
        x.events.append(('diag', pid, k))
        if d.get('raise') == 'exit':
          x.unspecified.append('phase diagnoser calls sys.exit()')
        if d.get('raise') or d.get('garbage'):
          if not is_terminal_kind(kind):
            kind = 'EXC:' + ('DiagBoom' if d.get('raise') else 'InvalidDiagnosisError')
          continue
        for r, f, i in d['emit']:
          f = bool(f or d.get('af'))
          (fdiag if f else diag).append('R%d' % r)
          if not i:
            x.diagnoses.append(('R%d' % r, f))
          self.store.add(r)
    if outcome != 'ERROR':
      if is_terminal_kind(kind):
        outcome = 'ERROR'
      elif outcome == 'PASS' and fdiag:
        outcome = 'FAIL'
    rec = dict(name='p%d' % pid, outcome=outcome, result=kind, subtest=st.name if st is not None else None,
               optional=False, meas=meas, diag=diag, fdiag=fdiag)
    x.phases.append(rec)
    return kind, rec


def expect(prog):
  return Model(prog).run()
