"""Real-thread harness: execute a generated program through openhtf.Test.execute() and observe it."""
import threading
import time

from vf import ohtf
from vf import progs


def result_kind(outcome):
  """PhaseExecutionOutcome -> short string."""
  if outcome is None:
    return 'NONE'
  pr = outcome.phase_result
  if pr is None:
    return 'TIMEOUT'
  name = type(pr).__name__
  if name == 'ExceptionInfo':
    return 'EXC:' + pr.exc_type.__name__
  if name == 'ThreadTerminationError':
    return 'KILLED'
  return pr.name


def observe_record(rec):
  def nm(x):
    return None if x is None else getattr(x, 'name', str(x))
  phases = []
  for p in rec.phases:
    phases.append({
        'name': p.name, 'outcome': nm(p.outcome), 'result': result_kind(p.result), 'subtest': p.subtest_name,
        'diag': [d.name for d in p.diagnosis_results], 'fdiag': [d.name for d in p.failure_diagnosis_results],
        'meas': {k: nm(m.outcome) for k, m in (p.measurements or {}).items() if not k.startswith('mon_p')},   # not the monitor's own
        'marginal': p.marginal,
        'has_options': p.options is not None,
        'start': p.start_time_millis, 'end': p.end_time_millis,
    })
  return {
      'outcome': nm(rec.outcome),
      'phases': phases,
      'checkpoints': [{'name': c.name, 'result': result_kind(c.result), 'subtest': c.subtest_name, 'action': nm(c.action)}
                      for c in rec.checkpoints],
      'branches': [{'name': b.name, 'taken': b.branch_taken} for b in rec.branches],
      'subtests': [{'name': s.name, 'outcome': nm(s.outcome)} for s in rec.subtests],
      'diagnoses': [{'result': d.result.name, 'fail': bool(d.is_failure)} for d in rec.diagnoses],
      'outcome_details': [str(d.code) for d in rec.outcome_details],
      'dut_id': rec.dut_id, 'start': rec.start_time_millis, 'end': rec.end_time_millis,
      'marginal': rec.marginal,
      'n_logs': len(rec.log_records),
  }


class Obs(object):
  __slots__ = ('ret', 'exc', 'record', 'events', 'calls', 'thread_exceptions', 'cb_records', 'raw_record', 'ctx', 'test', 'wall')


def run_program(prog, ctx=None, plug_map=None, before_execute=None, keep_raw=False):
  """Builds and executes the program once.  Returns Obs."""
  htf = ohtf.reset_case(cancel_timeout_s=0.05, plug_teardown_timeout_s=0.05, **progs.conf_values(prog))
  ctx = ctx or progs.Ctx()
  try:
    test, tsarg = progs.build_test(prog, ctx, htf, plug_map)
  except Exception as e:  # pylint: disable=broad-except
    # the declaration itself was refused: reported like an execute() that raised (every generated program is a valid one)
    o = Obs()
    o.ctx, o.test, o.exc, o.ret, o.wall = ctx, None, e, None, 0.0
    o.events, o.calls, o.thread_exceptions, o.cb_records, o.raw_record, o.record = [], ctx.calls(), [], [], None, None
    return o
  cb_records = []
  for i, raises in enumerate(prog['opts'].get('callbacks') or []):
    def cb(rec, i=i, raises=raises):
      ctx.log('cb', i)
      cb_records.append((i, rec))
      if raises:
        raise progs.CallbackBoom('cb%d' % i)
    test.add_output_callbacks(cb)
  final = []
  test.add_output_callbacks(lambda rec: (ctx.log('cb', 'final'), final.append(rec)))
  if before_execute is not None:
    before_execute(test, ctx)
  o = Obs()
  o.ctx = ctx
  o.test = test
  o.exc = None
  o.ret = None
  t0 = time.time()
  try:
    o.ret = test.execute(test_start=tsarg)
  except BaseException as e:  # pylint: disable=broad-except
    o.exc = e
  finally:
    ctx.cancel.set()
  o.wall = time.time() - t0
  o.events = list(ctx.events)
  o.calls = ctx.calls()
  o.thread_exceptions = list(ohtf.THREAD_EXCEPTIONS)
  o.cb_records = cb_records
  o.raw_record = final[0] if final else None
  o.record = observe_record(final[0]) if final else None
  if not keep_raw:
    o.raw_record = None
    o.test = None
  return o


def settle_threads(baseline, timeout=1.0):
  """Waits for abandoned phase threads of the previous case to exit. Returns leftover count."""
  t_end = time.time() + timeout
  while threading.active_count() > baseline and time.time() < t_end:
    time.sleep(0.001)
  return threading.active_count() - baseline
