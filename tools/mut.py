#!/usr/bin/env python3
"""Run a check against a mutated scratch copy of /repo/openhtf.

  tools/mut.py C07 openhtf/util/validators.py 'value < self.minimum' 'value <= self.minimum' [--tier quick] [--count N]
  tools/mut.py C07 --patch some.diff
The copy lives under /tmp/vfmut.<pid> and is removed afterwards.  Evidence is not written.
"""
import os, shutil, subprocess, sys, tempfile

def main():
  a = sys.argv[1:]
  pid = a.pop(0)
  tier = 'quick'
  if '--tier' in a:
    i = a.index('--tier'); tier = a[i + 1]; del a[i:i + 2]
  d = tempfile.mkdtemp(prefix='vfmut.')
  try:
    src = os.environ.get('VF_REPO_SRC', '/repo')       # a frozen copy of /repo for long regressions
    shutil.copytree(os.path.join(src, 'openhtf'), os.path.join(d, 'openhtf'), ignore=shutil.ignore_patterns('__pycache__', 'node_modules', 'web_gui'))
    shutil.copytree(os.path.join(src, 'docs'), os.path.join(d, 'docs'))
    if a[0] == '--patch':
      subprocess.check_call(['git', 'apply', '--unsafe-paths', '--directory=' + d, os.path.abspath(a[1])], cwd=d)
    else:
      while a:
        f, old, new = a[0], a[1], a[2]; a = a[3:]
        p = os.path.join(d, f)
        s = open(p).read()
        n = s.count(old)
        if n != 1:
          print('MUTANT-ERROR: %d occurrences of %r in %s' % (n, old, f)); return 3
        open(p, 'w').write(s.replace(old, new))
    env = dict(os.environ, VERIF_REPO=d, VERIF_MAX_WALL_S=os.environ.get('VERIF_MAX_WALL_S', '600'))
    r = subprocess.run([os.path.join(os.path.dirname(os.path.dirname(os.path.abspath(__file__))), 'check'), pid, '--tier', tier, '--no-evidence'], env=env, stdout=subprocess.PIPE, stderr=subprocess.STDOUT, text=True)
    lines = [l for l in r.stdout.splitlines() if 'conda' not in l]
    print('\n'.join(lines[-12:]))
    print('exit', r.returncode, 'CAUGHT' if r.returncode == 1 else ('MISSED' if r.returncode == 0 else 'ERROR'))
    return 0
  finally:
    shutil.rmtree(d, ignore_errors=True)

sys.exit(main())
