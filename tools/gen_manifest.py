#!/usr/bin/env python3
"""Regenerates MANIFEST.json from the property modules present under vf/props (run from /verif)."""
import importlib, json, os, sys
ROOT = os.path.dirname(os.path.dirname(os.path.abspath(__file__)))
sys.path.insert(0, ROOT)
ALL = ['C%02d' % i for i in range(1, 21)]
NOT_YET = 'check not built yet (work in progress; see DESIGN.md section 3 for the planned generated-input check)'
NA = {}  # property -> reason, for properties deliberately not claimed

def main():
  checks, na = [], []
  for pid in ALL:
    path = os.path.join(ROOT, 'vf', 'props', pid.lower() + '.py')
    if pid in NA:
      na.append({'property_id': pid, 'reason': NA[pid]}); continue
    if not os.path.exists(path):
      na.append({'property_id': pid, 'reason': NOT_YET}); continue
    m = importlib.import_module('vf.props.' + pid.lower())
    checks.append({
        'property_id': pid,
        'quick_cmd': './check %s --tier quick' % pid,
        'thorough_cmd': './check %s --tier thorough' % pid,
        'evidence_file': 'evidence/%s.json' % pid,
        'replay_cmd_template': './check %s --replay {path}' % pid,
        'engine': getattr(m, 'ENGINE', 'hypothesis'),
        'level_claimed': {'category': m.LEVEL, 'text': getattr(m, 'LEVEL_TEXT', m.RULE)[:1500],
                          'design_ref': 'DESIGN.md section 3, ' + pid},
        'level_note': getattr(m, 'LEVEL_NOTE', '; '.join(getattr(m, 'ASSUMPTIONS', [])) or 'see DESIGN.md 1.5'),
        'technique': getattr(m, 'TECHNIQUE', 'property-based testing (Hypothesis-generated cases against a reference oracle)'),
    })
  man = {
      'version': 1,
      'setup_cmd': "/venv/bin/python -c 'import hypothesis' 2>/dev/null || /venv/bin/pip install --no-index --find-links /opt/veriftools/wheels --target /verif/.deps hypothesis",
      'hooks': {
          'guard': 'OPENHTF_VERIF',
          'enable': 'none needed: every check imports /repo\'s working tree in a fresh process (PYTHONPATH=$VERIF_REPO) and instruments it by monkey-patching module namespaces from the harness; there are no source hooks',
          'baseline_off_cmd': 'cd /repo && /venv/bin/python -m pytest -ra -q -p no:cacheprovider --timeout=900 --continue-on-collection-errors',
          'source_commits': [],
          'add_only': True,
      },
      'engines': [
          {'name': 'progs+spec+rmode', 'path': 'vf/progs.py vf/spec.py vf/rmode.py vf/diff.py', 'serves_properties': ['C01', 'C02', 'C03', 'C05', 'C08', 'C09'],
           'kind_free_text': 'program AST + Hypothesis strategies + exhaustive small-tree enumerator; independent reference interpreter of docs/event_sequence.md; real-thread execution harness'},
          {'name': 'vsched', 'path': 'vf/vsched.py vf/vmode.py vf/vsched_selftest.py', 'serves_properties': ['C03', 'C04', 'C08', 'C09', 'C12', 'C13', 'C14', 'C18'],
           'kind_free_text': 'deterministic cooperative scheduler with virtual time over real threads: proxy threading/time/queue/ctypes in the module namespaces, line-level yield points via sys.monitoring, schedules (preemptions, stalls, wake-ups, SIGINT injections) as generated / enumerated data, deadlock and livelock reports; self-test at the start of every scheduled check'},
          {'name': 'fakes_usb', 'path': 'vf/fakes_usb.py', 'serves_properties': ['C13', 'C14', 'C15', 'C16'],
           'kind_free_text': 'import stubs for libusb1/usb1/M2Crypto, independent ADB header codec, scripted adbd and bootloader fakes'},
          {'name': 'hyp', 'path': 'vf/hyp.py', 'serves_properties': ALL,
           'kind_free_text': 'seeded database-less Hypothesis driver with root-cause bucketing, known-finding exclusion and budgeted shrinking'},
      ],
      'checks': checks,
      'not_applicable': na,
      'notes': 'All checks: ./check <ID> --tier quick|thorough; exit 0 held / 1 VIOLATION / 2 harness error. Genuine defects repaired in /repo as fix: commits are listed in known_findings.txt.',
  }
  with open(os.path.join(ROOT, 'MANIFEST.json'), 'w') as f:
    json.dump(man, f, indent=1); f.write('\n')
  print('checks:', [c['property_id'] for c in checks]); print('not_applicable:', [n['property_id'] for n in na])
main()
