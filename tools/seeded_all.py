#!/usr/bin/env python3
"""tools/seeded_all.py [name-prefix...]  — regression over the kept seeded changes.

For every /verif/seeded/<name>/ (optionally filtered by prefix) runs the property's quick check against a scratch copy of
/repo with patch.diff applied (tools/mut.py) and reports whether it is still caught.  Exit 1 if any is missed.
"""
import json, os, subprocess, sys, time

ROOT = os.path.dirname(os.path.dirname(os.path.abspath(__file__)))


def main():
  pre = sys.argv[1:]
  missed = []
  for name in sorted(os.listdir(os.path.join(ROOT, 'seeded'))):
    d = os.path.join(ROOT, 'seeded', name)
    if not os.path.isfile(os.path.join(d, 'meta.json')) or (pre and not any(name.startswith(p) for p in pre)):
      continue
    meta = json.load(open(os.path.join(d, 'meta.json')))
    prop = meta['property']
    if meta.get('neutralised_by'):
      print('%-55s %s neutral   (equivalent on the repaired tree: %s)' % (name, prop, ', '.join(meta['neutralised_by'])), flush=True)
      continue
    props = meta.get('caught_by') or [prop]
    t0 = time.time()
    patch = os.path.join(d, 'patch_rebased.diff')   # same change re-done on top of a later fix of the same lines
    if not os.path.exists(patch):
      patch = os.path.join(d, 'patch.diff')
    caught, last = False, ''
    for prop in props:      # the check(s) recorded as catching it (default: the property's own)
      r = subprocess.run([os.path.join(ROOT, 'tools', 'mut.py'), prop, '--patch', patch], cwd=ROOT,
                         stdout=subprocess.PIPE, stderr=subprocess.STDOUT, text=True)
      last = r.stdout.strip().splitlines()[-1] if r.stdout.strip() else ''
      caught = 'VIOLATION property=%s' % prop in r.stdout
      if caught:
        break
    print('%-55s %s %-7s %4.0fs  %s' % (name, prop, 'caught' if caught else 'MISSED', time.time() - t0, last[:90]), flush=True)
    if not caught:
      missed.append(name)
  print('missed: %r' % missed)
  return 1 if missed else 0


sys.exit(main())
