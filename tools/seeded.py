#!/usr/bin/env python3
"""tools/seeded.py <name> <worktree> <property> [<check ids to run>...]

Confirms a sub-agent's breaking change (suite passes with it; demo fails with it and passes without it), stores it under
/verif/seeded/<name>/ and runs the given checks (default: the property's) against a mutated copy of /repo.
"""
import json, os, shutil, subprocess, sys, tempfile, time

def sh(cmd, cwd=None, env=None, timeout=1800):
  r = subprocess.run(cmd, shell=True, cwd=cwd, env=env, stdout=subprocess.PIPE, stderr=subprocess.STDOUT, text=True, timeout=timeout)
  return r.returncode, r.stdout

def main():
  name, wt, prop = sys.argv[1:4]
  checks = [prop] + [c for c in sys.argv[4:] if c != prop]
  out = {'property': prop, 'name': name, 'ran': []}
  env = dict(os.environ, PYTHONPATH=wt)
  rc, diff = sh('git diff -- openhtf', cwd=wt)
  assert diff.strip(), 'no diff in worktree'
  rc, o = sh('/venv/bin/python -m pytest -q -p no:cacheprovider --timeout=900 --continue-on-collection-errors 2>&1 | tail -1', cwd=wt)
  out['suite_with_change'] = o.strip()
  rc1, o1 = sh('/venv/bin/python demo.py', cwd=wt, env=env, timeout=600)
  out['demo_with_change_exit'] = rc1
  open('/tmp/seeded_tmp.diff', 'w').write(diff)
  sh('git apply -R /tmp/seeded_tmp.diff', cwd=wt)     # not `git stash`: the stash is shared between worktrees
  try:
    rc0, o0 = sh('/venv/bin/python demo.py', cwd=wt, env=env, timeout=600)
  finally:
    sh('git apply /tmp/seeded_tmp.diff', cwd=wt)
  out['demo_without_change_exit'] = rc0
  ok = '307 passed' in out['suite_with_change'] and rc1 != 0 and rc0 == 0
  out['confirmed'] = ok
  print(json.dumps(out, indent=1))
  if not ok:
    print('NOT CONFIRMED'); print(o1[-1500:]); print(o0[-1500:]); return 1
  d = os.path.join('/verif/seeded', name)
  os.makedirs(d, exist_ok=True)
  open(os.path.join(d, 'patch.diff'), 'w').write(diff)
  shutil.copy(os.path.join(wt, 'demo.py'), os.path.join(d, 'demo.py'))
  results = {}
  for c in checks:
    t0 = time.time()
    rc, o = sh('/verif/tools/mut.py %s --patch %s' % (c, os.path.join(d, 'patch.diff')), cwd='/verif', timeout=3000)
    verdict = o.strip().splitlines()[-1] if o.strip() else ''
    sigs = [l.strip() for l in o.splitlines() if l.strip().startswith('sig=')]
    results[c] = {'verdict': verdict, 'sigs': sigs[:6], 'wall_s': round(time.time() - t0, 1)}
    print(c, verdict, sigs[:3])
  out['checks'] = results
  json.dump(out, open(os.path.join(d, 'meta.json'), 'w'), indent=1)
  return 0

sys.exit(main())
