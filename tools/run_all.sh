#!/bin/sh
# tools/run_all.sh [tier] : runs every check once, prints one line each
TIER=${1:-quick}
cd /verif
for i in 01 02 03 04 05 06 07 08 09 10 11 12 13 14 15 16 17 18 19 20; do
  s=$(date +%s)
  out=$(./check C$i --tier $TIER 2>&1 | grep -v conda)
  rc=$?
  e=$(date +%s)
  echo "C$i seed=${VERIF_SEED:-1} $(echo "$out" | grep -c '^KNOWN-FINDING') known; $(echo "$out" | tail -1) ($((e-s))s)"
done
